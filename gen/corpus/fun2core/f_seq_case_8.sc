data Tri { A, B, C }
def f(t: Tri, x0: i64): i64 { let x1: i64 = t.case { A => x0, B => x0 + 1, C => x0 * 2 }; let x2: i64 = t.case { A => x1, B => x1 + 1, C => x1 * 2 }; let x3: i64 = t.case { A => x2, B => x2 + 1, C => x2 * 2 }; let x4: i64 = t.case { A => x3, B => x3 + 1, C => x3 * 2 }; let x5: i64 = t.case { A => x4, B => x4 + 1, C => x4 * 2 }; let x6: i64 = t.case { A => x5, B => x5 + 1, C => x5 * 2 }; let x7: i64 = t.case { A => x6, B => x6 + 1, C => x6 * 2 }; let x8: i64 = t.case { A => x7, B => x7 + 1, C => x7 * 2 };  x8 }
def main(): i64 { f(A, 1) }
