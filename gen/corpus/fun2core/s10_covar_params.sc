codata Fun[A, B] { apply(x: A): B }
def k(x: i64, a: cns i64, b: cns i64): i64 { if x == 0 { goto a (1) } else { goto b (2) } }
def h(f: Fun[i64, i64], c: cns Fun[i64, i64]): i64 { let g: Fun[i64, i64] = new { apply(y) => goto c (f) }; g.apply[i64, i64](1) }
def main(): i64 { let r: i64 = label p { (label q { k(0, p, q) }) + 10 }; println_i64(r); 0 }
