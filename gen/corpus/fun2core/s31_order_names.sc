data List[A] { Nil, Cons(x: A, xs: List[A]) }
def f(xA: i64, x_1: i64, x1: i64, xa: i64, x10: i64, x9: i64, xZ: List[i64], b: cns i64, aB: cns i64, a_: i64): i64 {
  let r: i64 = if xA == x_1 { 1 } else { 2 };
  let s: i64 = xZ.case[i64] { Nil => goto b (x1), Cons(h, t) => if h == a_ { goto aB (xa) } else { x10 + x9 } };
  ((r + s) + (xA + x_1)) + ((x1 + xa) + (x10 + x9)) }
def main(): i64 { println_i64(label p { label q { f(1, 2, 3, 4, 5, 6, Nil, p, q, 7) } }); 0 }
