def g(a: i64, b: i64): i64 { a + b }
def f(n: i64): i64 {
  let r: i64 = g(g(g(n, 1), g(n, 2)), g(g(n, 3), g(g(n, 4), g(n, 5))));
  let s: i64 = g(g(g(r, 1), g(r, 2)), g(g(r, 3), g(g(n, 4), g(n, 5))));
  let t: i64 = if g(r, s) == g(s, r) { g(g(r, r), g(s, s)) } else { g(n, g(n, g(n, g(n, n)))) };
  let u: i64 = if t == 0 { g(t, t) } else { g(g(t, 1), g(t, 2)) };
  g(g(r, s), g(t, u)) }
def main(): i64 { println_i64(f(1)); 0 }
