def f(a: i64, b: i64): i64 { (((a + b) * (a - b)) / ((a % (b + 1)) + 1)) + ((((a))) + -3) }
def main(): i64 { println_i64(f(7, 2)); (0) }
