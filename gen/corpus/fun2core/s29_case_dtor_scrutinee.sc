data List[A] { Nil, Cons(x: A, xs: List[A]) }
codata Lazy[A] { force(): A }
def f(z: Lazy[List[i64]], n: i64): i64 { let r: i64 = z.force[List[i64]]().case[i64] { Nil => n, Cons(x, xs) => x + n }; let q: i64 = (if n == 0 { z } else { new { force() => Nil } }).force[List[i64]]().case[i64] { Nil => r, Cons(x, xs) => x }; r * q }
def main(): i64 { println_i64(f(new { force() => Cons(1, Nil) }, 2)); 0 }
