codata Fun[A, B] { apply(x: A): B }
codata Stream[A] { hd(): A, tl(): Stream[A] }
def from(n: i64): Stream[i64] { new { hd() => n, tl() => from((n + 1)) } }
def f(x: i64): i64 { let s: Stream[i64] = if x == 0 { from(0) } else { from(1).tl[i64]() }; let g: Fun[i64, i64] = new { apply(y) => y + (s.hd[i64]()) }; let t: Stream[i64] = s.tl[i64](); g.apply[i64, i64](t.hd[i64]()) }
def main(): i64 { println_i64(f(0)); 0 }
