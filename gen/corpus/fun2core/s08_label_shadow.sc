def f(a: i64): i64 { label a0 { let x: i64 = label a1 { goto a0 (a) }; x + (label a2 { goto a2 (x) }) } }
def g(a0: i64, a1: i64): i64 { (label a { goto a (a0 + a1) }) + (a0 * a1) }
def main(): i64 { println_i64((f(1) + g(2, 3))); 0 }
