data List[A] { Nil, Cons(x: A, xs: List[A]) }
data Opt[A] { None, Some(v: A) }
def headI(l: List[i64]): Opt[i64] { l.case[i64] { Nil => None, Cons(x, xs) => Some(x) } }
def headL(l: List[List[i64]]): Opt[List[i64]] { l.case[List[i64]] { Nil => None, Cons(x, xs) => Some(x) } }
def lenLL(l: List[List[i64]]): i64 { l.case[List[i64]] { Nil => 0, Cons(x, xs) => len(x) + lenLL(xs) } }
def len(l: List[i64]): i64 { l.case[i64] { Nil => 0, Cons(x, xs) => 1 + len(xs) } }
def main(): i64 { let ll: List[List[i64]] = Cons(Cons(1, Nil), Cons(Nil, Nil)); println_i64((lenLL(ll) + (headL(ll).case[List[i64]] { None => 0, Some(v) => headI(v).case[i64] { None => 1, Some(w) => w } }))); 0 }
