codata Fun[A, B] { apply(x: A): B }
data List[A] { Nil, Cons(x: A, xs: List[A]) }
def mapI(f: Fun[i64, i64], l: List[i64]): List[i64] { l.case[i64] { Nil => Nil, Cons(x, xs) => Cons(f.apply[i64, i64](x), mapI(f, xs)) } }
def mapL(f: Fun[i64, List[i64]], l: List[i64]): List[List[i64]] { l.case[i64] { Nil => Nil, Cons(x, xs) => Cons(f.apply[i64, List[i64]](x), mapL(f, xs)) } }
def comp(f: Fun[i64, i64], g: Fun[i64, List[i64]]): Fun[i64, List[i64]] { new { apply(x) => g.apply[i64, List[i64]](f.apply[i64, i64](x)) } }
def main(): i64 { let l: List[List[i64]] = mapL(comp(new { apply(x) => x + 1 }, new { apply(y) => Cons(y, Nil) }), Cons(1, Cons(2, Nil))); l.case[List[i64]] { Nil => 0, Cons(a, b) => a.case[i64] { Nil => 1, Cons(c, d) => c } } }
