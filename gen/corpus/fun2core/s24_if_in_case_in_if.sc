data List[A] { Nil, Cons(x: A, xs: List[A]) }
def f(l: List[i64], n: i64): i64 { let r: i64 = if n == 0 { l.case[i64] { Nil => if n < 1 { 1 } else { 2 }, Cons(x, xs) => if x > n { xs.case[i64] { Nil => 3, Cons(y, ys) => y } } else { 4 } } } else { 5 }; let s: i64 = l.case[i64] { Nil => r, Cons(x, xs) => if x == r { 1 } else { 0 } }; (r + s) + n }
def main(): i64 { println_i64(f(Cons(1, Nil), 0)); 0 }
