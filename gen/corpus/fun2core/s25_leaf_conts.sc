data List[A] { Nil, Cons(x: A, xs: List[A]) }
def f(l: List[i64], x: i64): i64 { if x == 0 { 1 } else { l.case[i64] { Nil => 2, Cons(a, b) => 3 } } }
def main(): i64 { if 1 == 1 { Nil.case[i64] { Nil => 0, Cons(a, b) => a } } else { f(Nil, 2) } }
