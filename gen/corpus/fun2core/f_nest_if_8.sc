def f(x: i64): i64 { let y: i64 = if x == 8 { if x == 7 { if x == 6 { if x == 5 { if x == 4 { if x == 3 { if x == 2 { if x == 1 { x } else { x + 1 } } else { x + 2 } } else { x + 3 } } else { x + 4 } } else { x + 5 } } else { x + 6 } } else { x + 7 } } else { x + 8 }; y + x }
def main(): i64 { f(1) }
