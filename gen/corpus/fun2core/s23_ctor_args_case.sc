data List[A] { Nil, Cons(x: A, xs: List[A]) }
def f(l: List[i64], n: i64): List[i64] { Cons(l.case[i64] { Nil => n, Cons(x, xs) => x }, Cons(if n == 0 { 1 } else { 2 }, l.case[i64] { Nil => Nil, Cons(y, ys) => ys })) }
def sum(l: List[i64]): i64 { l.case[i64] { Nil => 0, Cons(x, xs) => x + sum(xs) } }
def main(): i64 { println_i64(sum(f(Cons(5, Cons(6, Nil)), 0))); 0 }
