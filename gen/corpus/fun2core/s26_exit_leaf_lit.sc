data List[A] { Nil, Cons(x: A, xs: List[A]) }
def main(): i64 { let l: List[i64] = Cons(1, Nil); l.case[i64] { Nil => exit 1, Cons(a, b) => if a == 1 { exit a } else { 0 } } }
