data List[A] { Nil, Cons(x: A, xs: List[A]) }
def f(x: i64, xs: List[i64]): i64 { xs.case[i64] { Nil => x, Cons(x, xs) => xs.case[i64] { Nil => x, Cons(x, xs) => x } } }
def g(x: i64, l: List[i64]): i64 { let r: i64 = if x == 0 { l.case[i64] { Nil => 1, Cons(x, r) => x } } else { 2 }; r + x }
def main(): i64 { println_i64(f(1, Cons(2, Cons(3, Nil))) + g(0, Cons(4, Nil))); 0 }
