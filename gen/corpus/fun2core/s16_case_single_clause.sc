data Box[A] { Mk(v: A) }
data Pair[A, B] { Tup(fst: A, snd: B) }
def f(b: Box[i64], p: Pair[i64, Box[i64]]): i64 { let a: i64 = b.case[i64] { Mk(v) => v }; let c: i64 = p.case[i64, Box[i64]] { Tup(x, y) => y.case[i64] { Mk(w) => w + x } }; a + c }
def main(): i64 { println_i64(f(Mk(1), Tup(2, Mk(3)))); 0 }
