data List[A] { Nil, Cons(x: A, xs: List[A]) }
data Pair[A, B] { Tup(fst: A, snd: B) }
def f(l: List[i64], p: Pair[i64, List[i64]]): i64 {
  let a: i64 = l.case[i64] { Nil => p.case[i64, List[i64]] { Tup(u, v) => v.case[i64] { Nil => u, Cons(h, t) => h + u } }, Cons(h, t) => t.case[i64] { Nil => h, Cons(h2, t2) => h + h2 } };
  let b: i64 = p.case[i64, List[i64]] { Tup(u, v) => u };
  a * b }
def main(): i64 { println_i64(f(Cons(1, Cons(2, Nil)), Tup(3, Nil))); 0 }
