data List[A] { Nil, Cons(x: A, xs: List[A]) }
def f(x0: i64, a0: i64, x1: i64): i64 { let a1: i64 = x0 + a0; if a1 == x1 { a1 * 2 } else { let x2: i64 = 3; x2 + a1 } }
def g(a0: i64): i64 { f(a0, a0 + 1, if a0 < 2 { 1 } else { 2 }) }
def main(): i64 { println_i64(g(5)); 0 }
