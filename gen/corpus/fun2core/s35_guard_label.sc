data Opt[A] { None, Some(v: A) }
def f(k: cns i64, o: Opt[i64], v: i64): i64 {
  let r: i64 = o.case[i64] { None => goto k (v), Some(v) => label k { if v == 0 { goto k (1) } else { v } } };
  let s: i64 = o.case[i64] { None => 0, Some(k) => k + v };
  if r == s { goto k (r + v) } else { (let v: i64 = r; v) + v } }
def main(): i64 { println_i64(label e { f(e, Some(3), 4) }); 0 }
