data List[A] { Nil, Cons(x: A, xs: List[A]) }
def f(l: List[i64]): i64 { l.case[i64] { Nil => print_i64(0); println_i64(1); exit 3, Cons(x, xs) => print_i64(x); f(xs) } }
def g(x: i64): i64 { let y: i64 = (println_i64(x); x + 1); if y == 2 { exit y } else { print_i64(y); y } }
def main(): i64 { println_i64(g(0)); f(Cons(1, Nil)) }
