codata Fun[A, B] { apply(x: A): B }
codata Fun2[A, B, C] { apply2(x: A, y: B): C }
def f(g: Fun2[i64, i64, i64], h: Fun[i64, i64], x: i64): i64 { g.apply2[i64, i64, i64](h.apply[i64, i64](x), if x == 0 { 1 } else { h.apply[i64, i64](2) }) }
def main(): i64 { println_i64(f(new { apply2(x, y) => x + y }, new { apply(x) => x * 2 }, 3)); 0 }
