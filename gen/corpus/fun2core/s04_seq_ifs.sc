def f(a: i64, b: i64, c: i64): i64 {
  let p: i64 = if a == 0 { 1 } else { 2 };
  let q: i64 = if b != 0 { p + 1 } else { p + 2 };
  let r: i64 = if c < 0 { q * p } else { q - p };
  let s: i64 = if a <= b { r } else { q };
  let t: i64 = if b > c { s } else { r };
  let u: i64 = if c >= a { t } else { s };
  ((p + q) + (r + s)) + (t + u) }
def main(): i64 { println_i64(f(1, 2, 3)); 0 }
