data List[A] { Nil, Cons(x: A, xs: List[A]) }
codata Fun[A, B] { apply(x: A): B }
def f(x: i64, xs: List[i64], g: Fun[i64, i64]): i64 {
  let y: i64 = xs.case[i64] { Nil => (let x: i64 = 1; x + 1), Cons(x, xs) => xs.case[i64] { Nil => x, Cons(y, g) => y + x } };
  let h: Fun[i64, i64] = (let g: Fun[i64, i64] = new { apply(x) => x + y }; g);
  let z: i64 = (if y == 0 { let x: i64 = 5; x } else { let y: i64 = 6; y });
  ((y + x) + (z + (g.apply[i64, i64](x)))) + (h.apply[i64, i64](y)) }
def main(): i64 { println_i64(f(100, Cons(1, Cons(2, Nil)), new { apply(q) => q * 2 })); 0 }
