def main(n: i64, m: i64): i64 { let r: i64 = if n < m { n } else { m }; println_i64(r); if r == 0 { 0 } else { 1 } }
