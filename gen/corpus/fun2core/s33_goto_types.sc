data List[A] { Nil, Cons(x: A, xs: List[A]) }
def f(x: i64): List[i64] { label k { Cons(goto k (Nil), Cons(x + (goto k (Cons(1, Nil))), Nil)) } }
def g(x: i64): i64 { label k { let l: List[i64] = goto k (x); 0 } }
def main(): i64 { f(1).case[i64] { Nil => g(2), Cons(a, b) => a } }
