data List[A] { Nil, Cons(x: A, xs: List[A]) }
def f(x: i64, l: List[i64]): i64 { let y: i64 = l.case[i64] { Nil => 0, Cons(x, xs) => x }; y + x }
def main(): i64 { println_i64(f(100, Cons(1, Nil))); 0 }
