data List[A] { Nil, Cons(x: A, xs: List[A]) }
codata Fun[A, B] { apply(x: A): B }
def f(l: List[i64], g: Fun[i64, i64]): i64 { label r { (g.apply[i64, i64](l.case[i64] { Nil => goto r (0), Cons(x, xs) => x })) + f(xsOf(l), new { apply(z) => goto r (z) }) } }
def xsOf(l: List[i64]): List[i64] { l.case[i64] { Nil => Nil, Cons(x, xs) => xs } }
def main(): i64 { println_i64(f(Cons(1, Nil), new { apply(q) => q + 1 })); 0 }
