data Tri { A, B, C }
def f(t: Tri, x: i64): i64 { let y: i64 = t.case { A => t.case { A => t.case { A => t.case { A => t.case { A => t.case { A => t.case { A => t.case { A => x, B => x + 1, C => x }, B => x + 2, C => x }, B => x + 3, C => x }, B => x + 4, C => x }, B => x + 5, C => x }, B => x + 6, C => x }, B => x + 7, C => x }, B => x + 8, C => x }; y + x }
def main(): i64 { f(A, 1) }
