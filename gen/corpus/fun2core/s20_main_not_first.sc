data List[A] { Nil, Cons(x: A, xs: List[A]) }
def helper(x: i64): i64 { if x == 0 { 1 } else { let y: i64 = if x < 0 { 2 } else { 3 }; y + x } }
def main(): i64 { let a: i64 = if helper(1) == 1 { 2 } else { 3 }; let b: i64 = if a == 2 { 1 } else { 0 }; println_i64(a + b); 0 }
def after(x: i64): i64 { let z: i64 = if x == 0 { 1 } else { 2 }; let w: i64 = if z == 0 { 1 } else { 2 }; z + w }
