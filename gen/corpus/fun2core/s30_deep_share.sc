data Col { R, G, B, Y }
def f(c: Col, d: Col, e: Col, n: i64): i64 { let a: i64 = c.case { R => 1, G => 2, B => 3, Y => 4 }; let b: i64 = d.case { R => a, G => n, B => a + n, Y => 0 }; let g: i64 = e.case { R => b, G => a, B => n, Y => a + b }; let h: i64 = if g == 0 { c.case { R => 1, G => 2, B => 3, Y => 4 } } else { d.case { R => a, G => b, B => g, Y => n } }; (a + b) + (g + h) }
def main(): i64 { println_i64(f(R, G, B, 7)); 0 }
