data List[A] { Nil, Cons(x: A, xs: List[A]) }
def prod(l: List[i64], k: cns i64): i64 { l.case[i64] { Nil => 1, Cons(x, xs) => if x == 0 { goto k (0) } else { x * prod(xs, k) } } }
def f(l: List[i64]): i64 { (label k { prod(l, k) }) + (label k { 1 + (goto k (2)) }) }
def g(x: i64): i64 { label a { label b { if x == 0 { goto a (1) } else { goto b (x + (label a { goto a (3) })) } } } }
def main(): i64 { println_i64((f(Cons(2, Cons(0, Nil))) + g(1))); 0 }
