def main(x: L): i64 { if x >=> 1 { 1 } else { 2 } }
