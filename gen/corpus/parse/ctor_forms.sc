data List[A] { Nil, Cons(x: A, xs: List[A]) }
def main(): List[i64] { Nil }
def a(): List[i64] { Nil() }
def b(): List[i64] { Cons(1, Nil) }
def c(): List[i64] { Cons(1, Cons(2, Cons(3, Nil)),) }
def d(): List[i64] { Cons (1,
   Nil ,
 ) }
def e(): List[i64] { Cons(if 1 == 2 { 3 } else { 4 }, exit 1) }
