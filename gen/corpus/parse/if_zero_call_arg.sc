def main(x: i64): i64 { if f(0) == 0 { f(0) } else { g(x, 0) } }
