def main(a: cnst i64): i64 { 1 }
