codata S { hd }
