def main(x: i64): i64 { let y :cns i64 = 1; 3 }
