def main(x: i64): i64 { if x == 10 { 1 } else { 2 } }
def a(x: i64): i64 { if 10 == x { 1 } else { 2 } }
def b(x: i64): i64 { if x == (0) { 1 } else { 2 } }
def c(x: i64): i64 { if (0) == x { 1 } else { 2 } }
def d(x: i64): i64 { if x == -0 { 1 } else { 2 } }
def e(x: i64): i64 { if x == // zero
  0 { 1 } else { 2 } }
def f(x: i64): i64 { if 0 // zero
  == x { 1 } else { 2 } }
def g(x: i64): i64 { if 0 + 1 == x { 1 } else { 2 } }
def h(x: i64): i64 { if 0 // c
  < 0 { 1 } else { 2 } }
