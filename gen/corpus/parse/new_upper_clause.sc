def main(): S { new { Hd => 1 } }
