def main(l: L): i64 { l.case { Nil 0 } }
