def main(x: i64): i64 { label a { goto a (1) } }
def a(x: i64): i64 { label b{goto b(x)} }
def b(x: i64): i64 { exit exit exit 1 }
def c(x: i64): i64 { exit -1 }
def d(x: i64): i64 { label a { label b { goto a (goto b (1)) } } }
def e(x: i64): i64 { exit x.foo.bar }
def f(x: i64): i64 { exit x + 1 }
