def main(l: L): i64 { l.case { nil => 0 } }
