def main(): i64 { --5 }
