codata S { Hd: i64 }
