def main(): i64 { 007 }
