def main(x: L): i64 { x.case { Nil =>0, Cons(a, b) =>-1 } }
