def main(x: i64): i64 { label A { goto A (1) } }
