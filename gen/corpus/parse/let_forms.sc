def main(x: i64): i64 { let y: i64 = x; y }
def a(x: i64): i64 { let y : i64=x+1;y }
def b(x: i64): i64 { let y: List[i64] = Cons(1, Nil); let z: i64 = y.case[i64] { Nil => 0, Cons(h, t) => h }; z }
def c(x: i64): i64 { let y: i64 = if x == 0 { 1 } else { 2 }; y }
def d(x: i64): i64 { let y: i64 = exit print_i64(1); 2; 3 }
def e(x: i64): i64 { let y: i64 = let z: i64 = 1; 2; 3 }
def f(x: i64): i64 { let y: i64 = label a { 1 }; goto a (y) }
def g(x: i64): i64 { let y: Fun[i64, List[List[i64]]] = new { apply(a) => Nil }; 0 }
