data list { Nil }
