def main(f: F): i64 { f.exit }
