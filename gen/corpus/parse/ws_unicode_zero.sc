def main(x: i64): i64 { if x == 0 { 1 } else { 2 } }
def a(x: i64): i64 { if 0 <= x { 1 } else { 2 } }
def b(k:　cns i64): i64 { 1 }
