def main(x: i64): i64 { let y: i64 =0; let z: i64 = 0 ;y }
