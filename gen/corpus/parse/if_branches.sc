def main(x: i64): i64 {
  if x == 1 { print_i64(x); let y: i64 = x + 1; y } else { if x < 0 { exit 1 } else { label k { goto k (3) } } }
}
