def main(): S { new[i64] { hd => 1 } }
