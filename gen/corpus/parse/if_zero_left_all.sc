def main(x: i64): i64 { if x == 0 { 1 } else { 2 } }
def a(x: i64): i64 { if x != 0 { 1 } else { 2 } }
def b(x: i64): i64 { if x < 0 { 1 } else { 2 } }
def c(x: i64): i64 { if x <= 0 { 1 } else { 2 } }
def d(x: i64): i64 { if x > 0 { 1 } else { 2 } }
def e(x: i64): i64 { if x >= 0 { 1 } else { 2 } }
def f(x: i64): i64 { if x==0 { 1 } else { 2 } }
def g(x: i64): i64 { if x!=0 { 1 } else { 2 } }
def h(x: i64): i64 { if x<0 { 1 } else { 2 } }
def i(x: i64): i64 { if x<=0 { 1 } else { 2 } }
def j(x: i64): i64 { if x>0 { 1 } else { 2 } }
def k(x: i64): i64 { if x>=0{ 1 } else { 2 } }
def l(x: i64): i64 { if x ==
   0 { 1 } else { 2 } }
def m(x: i64): i64 { if x >=		0 { 1 } else { 2 } }
