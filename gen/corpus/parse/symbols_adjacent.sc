def main(x: i64): i64 { if x<=-1{x}else{if x>=-1{x}else{if x==-1{1}else{if x!=-1{1}else{if x<-1{1}else{if x>-1{1}else{0}}}}}} }
