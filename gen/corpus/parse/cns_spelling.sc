def main(a:cns i64, b: cns i64, c :cns i64, d :  cns i64, e:
cns i64, f:cnsFoo, g:cns	i64): i64 { 1 }
def cns(cns: i64, cnsx:cns i64): i64 { cns + cnsx }
