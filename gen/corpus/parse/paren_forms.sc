def main(x: i64): i64 { (x) }
def a(x: i64): i64 { ((((x)))) }
def b(x: i64): i64 { (print_i64(1); x) }
def c(x: i64): i64 { (let y: i64 = 1; y) + (exit 2) }
def d(x: i64): i64 { ( x
  ) }
