data List { nil }
