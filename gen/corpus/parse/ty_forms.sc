def main(a: i64, b: List[i64], c: Pair[i64, List[i64]], d: Fun[Fun[i64, i64], Fun[i64, i64]], e: A[], f: B[C,]): i64 { 1 }
