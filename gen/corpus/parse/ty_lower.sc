def main(a: list): i64 { 1 }
