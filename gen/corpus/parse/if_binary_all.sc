def main(x: i64, y: i64): i64 { if x == y { 1 } else { 2 } }
def a(x: i64, y: i64): i64 { if x != y { 1 } else { 2 } }
def b(x: i64, y: i64): i64 { if x < y { 1 } else { 2 } }
def c(x: i64, y: i64): i64 { if x <= y { 1 } else { 2 } }
def d(x: i64, y: i64): i64 { if x > y { 1 } else { 2 } }
def e(x: i64, y: i64): i64 { if x >= y { 1 } else { 2 } }
def f(x: i64, y: i64): i64 { if x==y{1}else{2} }
def g(x: i64, y: i64): i64 { if x<=y{1}else{2} }
