codata Unit { }
codata Stream[A] { hd: A, tl: Stream[A] }
codata Fun[A, B] { apply(x: A): B }
codata Lazy[A,] { force(): A, force2(k :cns A,): i64, }
codata Q { q : Q }
