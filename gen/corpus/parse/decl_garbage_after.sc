def main(): i64 { 1 } }
