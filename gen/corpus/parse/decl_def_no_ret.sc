def main() { 1 }
