def main(): S { new { hd(,) => 1 } }
