def main(f: F): i64 { f.apply(1)(2) }
