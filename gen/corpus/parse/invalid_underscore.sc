def main(_x: i64): i64 { 1 }
