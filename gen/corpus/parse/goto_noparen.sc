def main(x: i64): i64 { label a { goto a 1 } }
