def main(l: L): i64 { case { Nil => 0 } }
