def main(x: i64): i64 { if exit 1 == 2 { 1 } else { 2 } }
def a(x: i64): i64 { if let y: i64 = 1; y == 2 { 1 } else { 2 } }
def b(x: i64): i64 { if print_i64(1); x == 2 { 1 } else { 2 } }
def c(x: i64): i64 { if if x == 1 { 1 } else { 2 } == 2 { 1 } else { 2 } }
def d(x: i64): i64 { if label a { x } == 2 { 1 } else { 2 } }
def e(x: i64): i64 { if goto a (x) == 2 { 1 } else { 2 } }
def f(x: i64): i64 { if x + 1 == x * 2 { 1 } else { 2 } }
def g(x: L): i64 { if x.case { Nil => 1, Cons(a, b) => 2 } == Cons(1, Nil).len { 1 } else { 2 } }
def h(x: L): i64 { if new { hd => 1 }.hd < x.tl.hd(1) { 1 } else { 2 } }
def i(x: L): i64 { if println_i64(1); exit x != 0 { 1 } else { 2 } }
def j(x: L): i64 { if 0 == exit x { 1 } else { 2 } }
def k(x: L): i64 { if 0 <= if 0 >= x { 1 } else { 2 } { 1 } else { 2 } }
