def main(x: i64, y: i64): i64 { x + y }
def a(x: i64, y: i64): i64 { x - y }
def b(x: i64, y: i64): i64 { x * y }
def c(x: i64, y: i64): i64 { x / y }
def d(x: i64, y: i64): i64 { x % y }
def e(x: i64, y: i64): i64 { 1+2 }
def f(x: i64, y: i64): i64 { f(x, y) + (x) }
def g(x: i64, y: i64): i64 { (x + y) * (x - y) }
def h(x: i64, y: i64): i64 { ((x)) / g(1, 2) }
def i(x: i64, y: i64): i64 { -1 * f(x, y) }
