def main(x: i64): i64 { if x = 1 { 2 } else { 3 } }
