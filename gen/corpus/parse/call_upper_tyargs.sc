def main(x: i64): i64 { Cons[i64](1, Nil) }
