def main(x: S): i64 { (x.foo) + (if x == 1 { 2 } else { 3 }) }
