def main(x: i64): i64 { f(x + 1, x * 2, -x2 - 3).g(1 + 1)(2) }
