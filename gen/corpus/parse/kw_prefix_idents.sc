def iff(lets: i64, i64x: i64, casex: i64, newt: i64, print_i64x: i64, data1: i64, defx: i64, elsee: i64, gotox: i64, labell: i64, exitt: i64, codatas: i64, println_i64_: i64): i64 {
  iff(lets, i64x, casex, newt, print_i64x, data1, defx, elsee, gotox, labell, exitt, codatas, println_i64_) + iff
}
