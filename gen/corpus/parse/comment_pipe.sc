def main(): i64 { 1 } // | not a comment
