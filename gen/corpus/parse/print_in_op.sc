def main(x: i64): i64 { 1 + print_i64(x); 2 }
