codata Stream[A] { hd: A, tl: Stream[A] }
codata Fun[A, B] { apply(x: A): B }
def main(s: Stream[i64], f: Fun[i64, i64]): i64 { s.tl.tl.hd }
def a(s: Stream[i64], f: Fun[i64, i64]): i64 { f.apply[i64, i64](s.hd[i64]) }
def b(s: Stream[i64], f: Fun[i64, i64]): i64 { f.apply(1).apply[i64](2).apply[i64, Stream[i64]]().apply(3) }
def c(s: Stream[i64], f: Fun[i64, i64]): i64 { s . tl
    . hd }
def d(s: Stream[i64], f: Fun[i64, i64]): i64 { (s).hd }
def e(s: Stream[i64], f: Fun[i64, i64]): i64 { g(s).hd }
def f(s: Stream[i64], f: Fun[i64, i64]): i64 { g().hd }
def g(s: Stream[i64], f: Fun[i64, i64]): i64 { 5.hd }
def h(s: Stream[i64], f: Fun[i64, i64]): i64 { -5.hd[](1,) }
def i(s: Stream[i64], f: Fun[i64, i64]): i64 { new { hd => 1, tl => s }.tl.hd }
def j(s: Stream[i64], f: Fun[i64, i64]): i64 { Cons(1, Nil).case { Nil => 0, Cons(x, xs) => x }.foo }
def k(s: Stream[i64], f: Fun[i64, i64]): i64 { averyveryverylongname.hd }
