def main(x: i64): i64 { if x == exit 1 { 1 } else { 2 } }
def a(x: i64): i64 { if x == let y: i64 = 1; y { 1 } else { 2 } }
def b(x: i64): i64 { if x == print_i64(1); x { 1 } else { 2 } }
def c(x: i64): i64 { if x == if x == 1 { 1 } else { 2 } { 1 } else { 2 } }
def d(x: i64): i64 { if x >= label a { x } { 1 } else { 2 } }
def e(x: i64): i64 { if x > goto a (x) { 1 } else { 2 } }
def f(x: L): i64 { if x != new { hd => 1 } { 1 } else { 2 } }
def g(x: L): i64 { if x <= x.case[i64] { } { 1 } else { 2 } }
