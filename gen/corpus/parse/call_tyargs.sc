def main(x: i64): i64 { f[i64](1) }
