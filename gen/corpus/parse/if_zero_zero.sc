def main(): i64 { if 0 == 0 { 1 } else { 2 } }
def a(): i64 { if 0 < 0 { 1 } else { 2 } }
def b(): i64 { if 0 <= 0 { 1 } else { 2 } }
def c(): i64 { if 0>=0 { 1 } else { 2 } }
