def def(): i64 { 1 }
