def main(x: S): i64 { x.foo + 1 }
