// leading comment
def main(x: i64): i64 { // trailing
  //no space
  //
  //    indented | with pipe later
  //  | two spaces then pipe is a comment
  x // + 1
  //x| y
}
// final comment without newline