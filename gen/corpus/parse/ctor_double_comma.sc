def main(): L { Cons(1,,2) }
