data List[i64] { Nil }
