// non-uniformly recursive (nested) data and codata types: instances must be created on demand, not all reachable ones
data Box[A] { B(x: A) }
data Nest[A] { Leaf, Node(x: A, n: Nest[Box[A]]) }
codata Tower[A] { top(): A, up(): Tower[Box[A]] }
def depth(n: Nest[i64]): i64 { n.case[i64] { Leaf => 0, Node(x, m) => 1 } }
def main(a: i64): i64 { println_i64(depth(Node(a, Leaf))); 0 }
