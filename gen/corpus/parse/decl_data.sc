data Unit { }
data Bool { True, False }
data Pair[A, B] { Tup(a: A, b: B) }
data Opt[A,] { None(), Some(x: A,), }
data K[] { K1(k :cns i64), K2(k:cnsi64, l : cns K[]), K3(a: i64, k:
   cns List[i64]) }
data Foo_1x { Bar_2(x_1: Foo_1x) }
