data List[A] { Nil, Cons(x: A, xs: List[A]) }
codata Fun[A, B] { apply(x: A): B }
codata Stream[A] { hd: A, tl: Stream[A] }
def map(f: Fun[i64, i64], l: List[i64]): List[i64] {
  l.case[i64] { Nil => Nil, Cons(x, xs) => Cons(f.apply[i64, i64](x), map(f, xs)) }
}
def nats(n: i64): Stream[i64] { new { hd => n, tl => nats(n + 1) } }
def sum(l: List[i64], k:cns i64): i64 {
  l.case[i64] { Nil => goto k (0), Cons(x, xs) => let r: i64 = sum(xs, k); if r >= 0 { r + x } else { exit -1 } }
}
def main(n: i64): i64 {
  let l: List[i64] = map(new { apply(x) => x * 2 }, Cons(1, Cons(2, Cons(n, Nil))));
  label k { println_i64(sum(l, k)); if 0 < nats(3).tl.tl.hd { 0 } else { 1 } }
}
