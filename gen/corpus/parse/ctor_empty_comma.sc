def main(): L { Cons(,) }
