def main(x: i64): i64 { f() }
def a(x: i64): i64 { f(x) }
def b(x: i64): i64 { f (x, g(x), h(g(x,),),) }
def c(x: i64): i64 { f(Nil, new {}, x.case {}, label a { 1 }, exit 1, print_i64(1); 2, let y: i64 = 1; y, if x == 0 { 1 } else { 2 }) }
