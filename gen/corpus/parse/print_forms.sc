def main(x: i64): i64 { print_i64(x); println_i64(x + 1); print_i64((x)); println_i64(if x == 0 { 1 } else { 2 }); 0 }
def a(x: i64): i64 { print_i64 ( print_i64(1); 2 ) ; 0 }
def b(x: i64): i64 { exit println_i64(1); 2 }
def c(x: i64): i64 { label a { print_i64(1); goto a (println_i64(2); 3) } }
