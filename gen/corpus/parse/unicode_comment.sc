def main(x: i64): i64 { x } // ä中😀 ok
//é
