def main(x: i64): i64 { x - -5 }
def a(x: i64): i64 { x--5 }
def b(x: i64): i64 { -1 - -1 }
def c(x: i64): i64 { -1-1 }
def d(x: i64): i64 { x -5 }
def e(x: i64): i64 { x * -3 }
def f(x: i64): i64 { -3 / x }
def g(x: i64): i64 { -3 % x2(1) }
