// nothing here
