def main(f: F): i64 { f.Apply(1) }
