codata Stream[A] { hd: A, tl: Stream[A] }
def main(): Stream[i64] { new { hd => 1, tl => main() } }
def a(): Stream[i64] { new {} }
def b(): Stream[i64] { new { } }
def c(): Stream[i64] { new { hd() => 1, tl() => a(), } }
def d(): Fun[i64, i64] { new { apply(x) => x + 1 } }
def e(): Fun[i64, i64] { new { apply(x, y,) => new { apply(z) => x } } }
