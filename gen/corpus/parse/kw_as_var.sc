def main(x: i64): i64 { else + 1 }
