def main(x: i64): i64 { if x == 00 { 1 } else { 2 } }
