def main(x: i64): i64 { label if { 1 } }
