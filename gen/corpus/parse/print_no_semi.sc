def main(x: i64): i64 { print_i64(x) 0 }
