def main(a: i64[i64]): i64 { 1 }
