def main(): i64 { // }
