data List[A] { Nil, Cons(x: A, xs: List[A]) }
def main(l: List[i64]): i64 { l.case { Nil => 0, Cons(x, xs) => x } }
def a(l: List[i64]): i64 { l.case[i64] { Nil => 0, Cons(x, xs) => x, } }
def b(l: List[i64]): i64 { l.case {} }
def c(l: List[i64]): i64 { l.case[i64]{ } }
def d(l: List[i64]): i64 { l.case { Nil() => 0, Cons(x,xs,) => x } }
def e(l: List[i64]): i64 { l.case { Nil => l.case { Nil => 1 } } }
def f(l: List[i64]): i64 { l.case { Cons(x, xs) => xs.case { Nil => x, Cons(y, ys) => x + y } } }
def g(l: List[i64]): i64 { l.tl.case[List[i64]] { Nil => 0 }.case { Nil => print_i64(1); 2, Cons(a, b) => let z: i64 = a; z } }
def h(l: List[i64]): i64 { l.case[] { Nil => 0 } }
