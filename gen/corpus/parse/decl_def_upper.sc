def Main(): i64 { 1 }
