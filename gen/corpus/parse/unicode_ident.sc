def mäin(x: i64): i64 { x }
