def main: i64 { 1 }
def a(): i64 { 1 }
def b(x: i64,): i64 { 1 }
def c(x: i64, k :cns i64): i64 { 1 }
def d(k:cns List[i64], k2 : cns i64) : List[ List [ i64 ] ] { Nil }
def e_1_X9(x: A): B { x }
