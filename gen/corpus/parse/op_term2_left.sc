def main(x: i64): i64 { Cons(1, Nil) + x }
