def main(x: i64): i64 { let y: i64 == 1; 3 }
