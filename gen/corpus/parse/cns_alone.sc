def main(a: cns): i64 { 1 }
