#!/usr/bin/env python3
"""
gen_axcut.py <seed> <n> <outdir> [options]   (python3 stdlib only)

Seeded generator of WELL-TYPED, NON-LINEAR AxCut programs in the `(axprog ...)` S-expression dump
format of /verif/harness/src/dump_axcut.rs (stage S4: no `subst`, all fv annotations `none`,
`create` environments `none`, binder ids globally unique and <= max id).  Feed the files to the
harness with `axcut <file.sexp> nocode` or to the Lean model `Scc.AxCut.runLine`.

What the programs exercise (C05..C09): variables used 0, 1 or many times; dead parameters;
closures (create) whose clauses see a prefix / suffix / interleaving / random subset of the context;
switch on a variable that is used again in the clauses; contexts up to --max-live variables
(default 24); types with 1..4 xtors with 0..--max-fields (default 6) fields of mixed kinds
(ext i64 / prd data / cns codata); several definitions calling each other (only "forward" or
through a counter that strictly decreases, so every program terminates) with permuted / duplicated
arguments; let / invoke / call arguments with repeated variables.

Guarantees
  * main is the first definition and takes only `ext i64` parameters (--main-args K, default random 0..3);
  * `/` and `%` only with a literal divisor in 1..9 (never stuck) unless --unsafe-div;
  * every program terminates: outside closures, calls go to later definitions or to a recursive
    definition whose first parameter is a counter that is decremented and tested against 0;
    inside a clause of a closure of type T_m there is no `call` and `invoke` is used only on
    closures of a type T_j with j > m.  --allow-divergence lifts the restriction on closure
    bodies (closures calling definitions, self application: programs may loop);
  * --max-live L: in the LINEARIZED program no context (environment) is longer than L; this is
    checked by an exact simulation of the context sizes (rejection sampling), L >= 8;
  * --no-print: no print statements.
Outputs <outdir>/ax_<seed>_<i>.sexp for i in 0..n-1 and <outdir>/index_<seed>.txt with lines
`<file> <number of main args> <max live context size>`.

Library use: `from gen_axcut import generate; text, nargs, live = generate(seed, index, opts)`
with `opts = Options(...)`.
"""
import random
import sys
import os

NAMES = "abcdefghjkmnpqrstuvwxyz"


class Options:
    def __init__(self, no_print=False, max_live=24, max_fields=6, max_params=8, size=40,
                 unsafe_div=False, main_args=None, max_defs=5, max_types=5,
                 allow_divergence=False):
        self.no_print = no_print
        self.max_live = max(8, max_live)
        self.max_fields = max(0, min(max_fields, self.max_live - 4))
        self.max_params = min(max_params, self.max_live)
        self.size = size
        self.unsafe_div = unsafe_div
        self.main_args = main_args
        self.max_defs = max_defs
        self.max_types = max_types
        self.allow_divergence = allow_divergence


# ---------------------------------------------------------------- rendering

def q(s):
    return '"' + s.replace('\\', '\\\\').replace('"', '\\"') + '"'


def r_id(name, i):
    return f"(id {q(name)} {i})"


def r_ty(ty):
    return "i64" if ty == "i64" else f"(ty {r_id(ty, 0)})"


def r_b(v):
    return f"(b {r_id(v['name'], v['id'])} {v['chi']} {r_ty(v['ty'])})"


def r_ctx(vs):
    return "(ctx" + "".join(" " + r_b(v) for v in vs) + ")"


def r_var(v):
    return r_id(v['name'], v['id'])


def r_stmt(s):
    k = s[0]
    if k == 'lit':
        return f"(lit {r_var(s[1])} {s[2]} {r_stmt(s[3])} none)"
    if k == 'op':
        return f"(op {r_var(s[1])} {r_var(s[2])} {s[3]} {r_var(s[4])} {r_stmt(s[5])} none)"
    if k == 'print':
        return f"(print {'nl' if s[1] else 'nonl'} {r_var(s[2])} {r_stmt(s[3])} none)"
    if k == 'let':
        return f"(let {r_var(s[1])} {r_ty(s[1]['ty'])} {r_id(s[2], 0)} {r_ctx(s[3])} {r_stmt(s[4])} none)"
    if k == 'switch':
        cl = "".join(f" (clause {r_id(x, 0)} {r_ctx(ps)} {r_stmt(b)})" for (x, ps, b) in s[2])
        return f"(switch {r_var(s[1])} {r_ty(s[1]['ty'])} (clauses{cl}) none)"
    if k == 'create':
        cl = "".join(f" (clause {r_id(x, 0)} {r_ctx(ps)} {r_stmt(b)})" for (x, ps, b) in s[2])
        return f"(create {r_var(s[1])} {r_ty(s[1]['ty'])} none (clauses{cl}) {r_stmt(s[3])} none none)"
    if k == 'invoke':
        return f"(invoke {r_var(s[1])} {r_id(s[2], 0)} {r_ty(s[1]['ty'])} {r_ctx(s[3])})"
    if k == 'call':
        return f"(call {r_id(s[1], 0)} {r_ctx(s[2])})"
    if k == 'ifc':
        snd = "none" if s[3] is None else r_var(s[3])
        return f"(ifc {s[1]} {r_var(s[2])} {snd} {r_stmt(s[4])} {r_stmt(s[5])})"
    if k == 'exit':
        return f"(exit {r_var(s[1])})"
    raise ValueError(k)


# ---------------------------------------------------------------- free variables / live sizes

def fv(s):
    """set of ids free in s (memoised on the tuple identity)"""
    k = s[0]
    if k == 'lit':
        return fv(s[3]) - {s[1]['id']}
    if k == 'op':
        return (fv(s[5]) - {s[1]['id']}) | {s[2]['id'], s[4]['id']}
    if k == 'print':
        return fv(s[3]) | {s[2]['id']}
    if k == 'let':
        return (fv(s[4]) - {s[1]['id']}) | {a['id'] for a in s[3]}
    if k == 'switch':
        return fv_clauses(s[2]) | {s[1]['id']}
    if k == 'create':
        return (fv(s[3]) - {s[1]['id']}) | fv_clauses(s[2])
    if k == 'invoke':
        return {a['id'] for a in s[3]} | {s[1]['id']}
    if k == 'call':
        return {a['id'] for a in s[2]}
    if k == 'ifc':
        r = fv(s[4]) | fv(s[5]) | {s[2]['id']}
        if s[3] is not None:
            r = r | {s[3]['id']}
        return r
    if k == 'exit':
        return {s[1]['id']}
    raise ValueError(k)


def fv_clauses(cs):
    r = set()
    for (_, ps, b) in cs:
        r |= fv(b) - {p['id'] for p in ps}
    return r


def max_live(s, ctx):
    """maximal length of a context in the linearized program, `ctx` = set of ids in the context
    in front of s (sizes only: order does not matter)"""
    k = s[0]
    if k == 'lit':
        c = ctx & fv(s[3])
        return max(len(ctx), max_live(s[3], c | {s[1]['id']}))
    if k == 'op':
        c = ctx & (fv(s[5]) | {s[2]['id'], s[4]['id']})
        return max(len(ctx), max_live(s[5], c | {s[1]['id']}))
    if k == 'print':
        c = ctx & (fv(s[3]) | {s[2]['id']})
        return max(len(ctx), max_live(s[3], c))
    if k == 'let':
        c = ctx & fv(s[4])
        return max(len(ctx), len(c) + len(s[3]), max_live(s[4], c | {s[1]['id']}))
    if k == 'switch':
        c = ctx & fv_clauses(s[2])
        m = max(len(ctx), len(c) + 1)
        for (_, ps, b) in s[2]:
            m = max(m, max_live(b, c | {p['id'] for p in ps}))
        return m
    if k == 'create':
        cn = ctx & fv(s[3])
        cc = ctx & fv_clauses(s[2])
        m = max(len(ctx), len(cn) + len(cc))
        for (_, ps, b) in s[2]:
            m = max(m, max_live(b, cc | {p['id'] for p in ps}))
        return max(m, max_live(s[3], cn | {s[1]['id']}))
    if k == 'invoke':
        return max(len(ctx), len(s[3]) + 1)
    if k == 'call':
        return max(len(ctx), len(s[2]))
    if k == 'ifc':
        return max(len(ctx), max_live(s[4], ctx), max_live(s[5], ctx))
    if k == 'exit':
        return len(ctx)
    raise ValueError(k)


# ---------------------------------------------------------------- generator

class Gen:
    def __init__(self, rng, opts):
        self.rng = rng
        self.o = opts
        self.next_id = 0
        self.types = []   # dict(name, kind, xtors=[(name, [(fname, chi, ty)])])
        self.defs = []    # dict(name, params=[var], rec=bool, body)
        self.cap = max(4, opts.max_live - 2 - opts.max_fields)  # capacity of the visible scope

    # -- names and variables
    def fresh(self, chi, ty, name=None):
        self.next_id += 1
        if name is None:
            name = self.rng.choice(NAMES)
        return {'id': self.next_id, 'name': name, 'chi': chi, 'ty': ty}

    def tdecl(self, name):
        for t in self.types:
            if t['name'] == name:
                return t
        raise KeyError(name)

    # -- types
    def gen_types(self):
        rng = self.rng
        nt = rng.randint(2, max(2, self.o.max_types))
        names = [f"T{i}" for i in range(nt)]
        kinds = ['data', 'codata'] + [rng.choice(['data', 'codata']) for _ in range(nt - 2)]
        rng.shuffle(kinds)
        for i, n in enumerate(names):
            nx = rng.randint(1, 4)
            xtors = []
            for j in range(nx):
                nf = rng.randint(0, self.o.max_fields)
                if rng.random() < 0.3:
                    nf = min(nf, 1)
                fields = []
                for f in range(nf):
                    # the first xtor of a data type has only ext fields: always constructible
                    if (kinds[i] == 'data' and j == 0) or rng.random() < 0.5:
                        fields.append((rng.choice(NAMES), 'ext', 'i64'))
                    else:
                        tj = rng.randrange(nt)
                        fields.append((rng.choice(NAMES), 'prd' if kinds[tj] == 'data' else 'cns', names[tj]))
                xn = ("K" if kinds[i] == 'data' else "d") + f"{i}_{j}"
                xtors.append((xn, fields))
            self.types.append({'name': n, 'kind': kinds[i], 'xtors': xtors})

    # -- visible scope discipline
    def add_vis(self, vis, v, pinned=()):
        vis.append(v)
        pins = {p['id'] for p in pinned} | {v['id']}
        while len(vis) > self.cap:
            cand = [i for i, w in enumerate(vis) if w['id'] not in pins]
            if not cand:
                break
            del vis[self.rng.choice(cand)]

    def pick(self, vis, chi, ty):
        c = [v for v in vis if v['chi'] == chi and v['ty'] == ty]
        return self.rng.choice(c) if c else None

    def subset(self, vis, room):
        """the part of the context visible inside closure clauses: prefix / suffix / interleaving /
        random subset / everything / nothing, at most `room` variables"""
        rng = self.rng
        n = len(vis)
        mode = rng.randrange(6)
        if mode == 0:
            r = vis[:rng.randint(0, n)]
        elif mode == 1:
            r = vis[rng.randint(0, n):]
        elif mode == 2:
            r = vis[rng.randrange(2)::2]
        elif mode == 3:
            r = [v for v in vis if rng.random() < 0.5]
        elif mode == 4:
            r = list(vis)
        else:
            r = []
        while len(r) > max(0, room):
            del r[rng.randrange(len(r))]
        return list(r)

    # -- obtaining a variable of a given kind, synthesising it when none is visible
    def need(self, vis, chi, ty, pre, pinned, depth, ctx):
        """returns a variable; may append statement builders to `pre` and extend `vis`"""
        rng = self.rng
        v = self.pick(vis, chi, ty)
        if v is not None and rng.random() < 0.85:
            return v
        if chi == 'ext':
            x = self.fresh('ext', 'i64')
            n = rng.choice([0, 1, 2, 3, 5, 7, 10, -1, -4, 100, rng.randint(-1000, 1000)])
            pre.append(lambda nxt, x=x, n=n: ('lit', x, n, nxt))
            self.add_vis(vis, x, pinned)
            return x
        if v is not None and depth <= 0:
            return v
        t = self.tdecl(ty)
        if chi == 'prd':
            xt = t['xtors'][0] if depth <= 0 else rng.choice(t['xtors'])
            return self.mk_let(vis, t, xt, pre, pinned, depth - 1, ctx)
        # cns: create
        x = self.fresh('cns', ty)
        sub = dict(ctx, synth=ctx.get('synth', 0) + 1)
        clauses = self.gen_methods(vis, t, 0 if sub['synth'] >= 2 else ctx['budget'] // 4, sub)
        pre.append(lambda nxt, x=x, clauses=clauses: ('create', x, clauses, nxt))
        self.add_vis(vis, x, pinned)
        return x

    def mk_let(self, vis, t, xt, pre, pinned, depth, ctx):
        args = []
        pins = list(pinned)
        for (_, chi, ty) in xt[1]:
            a = self.need(vis, chi, ty, pre, pins, depth, ctx)
            args.append(a)
            pins.append(a)
        x = self.fresh('prd', t['name'])
        pre.append(lambda nxt, x=x, xn=xt[0], args=args: ('let', x, xn, list(args), nxt))
        self.add_vis(vis, x, pinned)
        return x

    def rank(self, tyname):
        return [i for i, t in enumerate(self.types) if t['name'] == tyname][0]

    def gen_methods(self, vis, t, budget, ctx):
        # inside a clause of a closure of type T_m: no `call`, `invoke` only on closures of a type
        # of higher rank (unless --allow-divergence): every control transfer increases the rank
        ctx = dict(ctx, clo_rank=self.rank(t['name']))
        clauses = []
        for (xn, fields) in t['xtors']:
            ps = [self.fresh(chi, ty, fn) for (fn, chi, ty) in fields]
            inner = self.subset(vis, self.cap - len(ps))
            body = self.gen_stmt(ps + inner if self.rng.random() < 0.5 else inner + ps, budget, ctx)
            clauses.append((xn, ps, body))
        return clauses

    def wrap(self, pre, s):
        for f in reversed(pre):
            s = f(s)
        return s

    # -- terminal statements
    def gen_exit(self, vis, ctx):
        pre = []
        v = self.need(vis, 'ext', 'i64', pre, [], 0, ctx)
        return self.wrap(pre, ('exit', v))

    def args_for(self, vis, params, pre, ctx, first_counter=None):
        args = []
        pins = []
        for i, p in enumerate(params):
            if i == 0 and first_counter is not None:
                a = first_counter
            else:
                a = self.need(vis, p['chi'], p['ty'], pre, pins, 1, ctx)
            args.append(a)
            pins.append(a)
        return args

    def gen_call(self, vis, ctx):
        rng = self.rng
        targets = list(range(ctx['def'] + 1, len(self.defs)))
        if ctx.get('clo_rank') is not None and not self.o.allow_divergence:
            return None
        if not targets:
            return None
        j = rng.choice(targets)
        d = self.defs[j]
        pre = []
        counter = None
        if d['rec']:
            counter = self.fresh('ext', 'i64', 'n')
            k = rng.randint(0, 6)
            pre.append(lambda nxt, c=counter, k=k: ('lit', c, k, nxt))
            self.add_vis(vis, counter)
        args = self.args_for(vis, d['params'], pre, ctx, counter)
        return self.wrap(pre, ('call', d['name'], args))

    def gen_invoke(self, vis, ctx):
        rng = self.rng
        cands = [v for v in vis if v['chi'] == 'cns']
        if ctx.get('clo_rank') is not None and not self.o.allow_divergence:
            cands = [v for v in cands if self.rank(v['ty']) > ctx['clo_rank']]
        if not cands:
            return None
        v = rng.choice(cands)
        t = self.tdecl(v['ty'])
        (xn, fields) = rng.choice(t['xtors'])
        pre = []
        pins = [v]
        args = []
        for (_, chi, ty) in fields:
            a = self.need(vis, chi, ty, pre, pins, 1, ctx)
            args.append(a)
            pins.append(a)
        return self.wrap(pre, ('invoke', v, xn, args))

    def gen_terminal(self, vis, ctx):
        rng = self.rng
        r = rng.random()
        s = None
        ctx = dict(ctx, budget=min(ctx['budget'], 4))
        if ctx.get('synth', 0) >= 2:
            return self.gen_exit(vis, ctx)
        if r < 0.35:
            s = self.gen_invoke(vis, ctx)
        elif r < 0.7:
            s = self.gen_call(vis, ctx)
        if s is None:
            s = self.gen_exit(vis, ctx)
        return s

    # -- statements
    def gen_stmt(self, vis_in, budget, ctx):
        rng = self.rng
        vis = list(vis_in)
        while len(vis) > self.cap:
            del vis[rng.randrange(len(vis))]
        ctx = dict(ctx, budget=budget)
        if budget <= 0:
            return self.gen_terminal(vis, ctx)
        r = rng.random()
        pre = []
        if r < 0.12:
            x = self.fresh('ext', 'i64')
            pre.append(lambda nxt: ('lit', x, rng.randint(-50, 50), nxt))
            self.add_vis(vis, x)
            return self.wrap(pre, self.gen_stmt(vis, budget - 1, ctx))
        if r < 0.30:
            a = self.need(vis, 'ext', 'i64', pre, [], 0, ctx)
            o = rng.choice(['+', '-', '*', '+', '-', '/', '%'])
            if o in '/%' and not self.o.unsafe_div:
                b = self.fresh('ext', 'i64')
                kk = rng.randint(1, 9)
                pre.append(lambda nxt: ('lit', b, kk, nxt))
                self.add_vis(vis, b, [a])
            else:
                b = self.need(vis, 'ext', 'i64', pre, [a], 0, ctx)
            x = self.fresh('ext', 'i64')
            pre.append(lambda nxt: ('op', x, a, o, b, nxt))
            self.add_vis(vis, x)
            return self.wrap(pre, self.gen_stmt(vis, budget - 1, ctx))
        if r < 0.38 and not self.o.no_print:
            a = self.need(vis, 'ext', 'i64', pre, [], 0, ctx)
            nl = rng.random() < 0.7
            pre.append(lambda nxt: ('print', nl, a, nxt))
            return self.wrap(pre, self.gen_stmt(vis, budget - 1, ctx))
        if r < 0.55:
            data = [t for t in self.types if t['kind'] == 'data']
            t = rng.choice(data)
            xt = rng.choice(t['xtors'])
            self.mk_let(vis, t, xt, pre, [], 1, ctx)
            return self.wrap(pre, self.gen_stmt(vis, budget - 2, ctx))
        if r < 0.70:
            cands = [v for v in vis if v['chi'] == 'prd']
            if cands:
                v = rng.choice(cands)
                t = self.tdecl(v['ty'])
                if rng.random() < 0.5 and v in vis:
                    pass  # the scrutinee stays visible in the clauses (used again)
                nb = max(0, (budget - 1) // max(1, len(t['xtors'])))
                clauses = []
                for (xn, fields) in t['xtors']:
                    ps = [self.fresh(chi, ty, fn) for (fn, chi, ty) in fields]
                    inner = list(vis)
                    while len(inner) + len(ps) > self.cap and inner:
                        del inner[rng.randrange(len(inner))]
                    clauses.append((xn, ps, self.gen_stmt(inner + ps, nb, ctx)))
                return ('switch', v, clauses)
        if r < 0.82:
            cod = [t for t in self.types if t['kind'] == 'codata']
            t = rng.choice(cod)
            x = self.fresh('cns', t['name'])
            nb = max(1, budget // 3)
            clauses = self.gen_methods(vis, t, max(0, nb // max(1, len(t['xtors']))), ctx)
            self.add_vis(vis, x)
            return ('create', x, clauses, self.gen_stmt(vis, budget - 1 - nb, ctx))
        if r < 0.92:
            a = self.need(vis, 'ext', 'i64', pre, [], 0, ctx)
            b = None if rng.random() < 0.4 else self.need(vis, 'ext', 'i64', pre, [a], 0, ctx)
            srt = rng.choice(['eq', 'ne', 'lt', 'le', 'gt', 'ge'])
            h = (budget - 1) // 2
            return self.wrap(pre, ('ifc', srt, a, b, self.gen_stmt(vis, h, ctx), self.gen_stmt(vis, h, ctx)))
        return self.gen_terminal(vis, ctx)

    # -- definitions
    def gen_defs(self):
        rng = self.rng
        nd = rng.randint(1, self.o.max_defs)
        # signatures first (calls go forward; a recursive definition has a counter first)
        for i in range(nd):
            if i == 0:
                k = self.o.main_args if self.o.main_args is not None else rng.randint(0, 3)
                params = [self.fresh('ext', 'i64') for _ in range(k)]
                rec = False
            else:
                rec = rng.random() < 0.35
                np_ = rng.randint(0, self.o.max_params)
                params = []
                if rec:
                    params.append(self.fresh('ext', 'i64', 'n'))
                for _ in range(np_):
                    r = rng.random()
                    if r < 0.5:
                        params.append(self.fresh('ext', 'i64'))
                    else:
                        t = rng.choice(self.types)
                        params.append(self.fresh('prd' if t['kind'] == 'data' else 'cns', t['name']))
                params = params[:self.o.max_live]
            self.defs.append({'name': 'main' if i == 0 else f"f{i}", 'params': params, 'rec': rec, 'body': None})
        # bodies last to first is not needed: signatures are known
        for i, d in enumerate(self.defs):
            ctx = {'def': i, 'budget': self.o.size}
            vis = list(d['params'])
            if rng.random() < 0.4 and len(vis) > 1:   # dead parameters
                for _ in range(rng.randint(1, len(vis) - 1)):
                    cand = [j for j, v in enumerate(vis) if not (d['rec'] and v is d['params'][0])]
                    if cand:
                        del vis[rng.choice(cand)]
            size = rng.randint(max(2, self.o.size // 4), self.o.size)
            if d['rec']:
                n = d['params'][0]
                base = self.gen_stmt([v for v in vis if v is not n], size // 2, ctx)
                one = self.fresh('ext', 'i64', 'one')
                n1 = self.fresh('ext', 'i64', 'n')
                vis2 = [v for v in vis if v is not n]
                pre = [lambda nxt: ('lit', one, 1, nxt), lambda nxt: ('op', n1, n, '-', one, nxt)]
                # a few statements, then the recursive call with the decremented counter
                mid_pre = []
                for _ in range(rng.randint(0, 3)):
                    a = self.need(vis2, 'ext', 'i64', mid_pre, [n1], 0, ctx)
                    b = self.need(vis2, 'ext', 'i64', mid_pre, [n1, a], 0, ctx)
                    x = self.fresh('ext', 'i64')
                    mid_pre.append(lambda nxt, x=x, a=a, b=b, o=rng.choice('+-*'): ('op', x, a, o, b, nxt))
                    self.add_vis(vis2, x, [n1])
                    if not self.o.no_print and rng.random() < 0.5:
                        mid_pre.append(lambda nxt, x=x: ('print', True, x, nxt))
                args = self.args_for(vis2, d['params'], mid_pre, ctx, n1)
                rec_branch = self.wrap(pre + mid_pre, ('call', d['name'], args))
                d['body'] = ('ifc', 'le', n, None, base, rec_branch)
            else:
                d['body'] = self.gen_stmt(vis, size, ctx)

    def render(self):
        ts = "".join(
            " (type " + r_id(t['name'], 0) + "".join(
                f" (xtor {r_id(xn, 0)} (ctx" + "".join(
                    f" (b {r_id(fn, 0)} {chi} {r_ty(ty)})" for (fn, chi, ty) in fs) + "))"
                for (xn, fs) in t['xtors']) + ")"
            for t in self.types)
        ds = "".join(
            f" (def {r_id(d['name'], 0)} {r_ctx(d['params'])} {r_stmt(d['body'])})" for d in self.defs)
        return f"(axprog {self.next_id} (types{ts}) (defs{ds}))"

    def live(self):
        return max(max(len(d['params']), max_live(d['body'], {p['id'] for p in d['params']}))
                   for d in self.defs)


def generate(seed, index, opts):
    """returns (sexp text, number of main arguments, maximal context length after linearization)"""
    attempt = 0
    while True:
        rng = random.Random(f"{seed}/{index}/{attempt}")
        g = Gen(rng, opts)
        g.gen_types()
        g.gen_defs()
        lv = g.live()
        if lv <= opts.max_live:
            return g.render(), len(g.defs[0]['params']), lv
        attempt += 1
        if attempt > 200:
            raise RuntimeError("could not satisfy --max-live")


def main(argv):
    if len(argv) < 4:
        print(__doc__)
        return 2
    seed, n, outdir = argv[1], int(argv[2]), argv[3]
    kw = {}
    i = 4
    while i < len(argv):
        a = argv[i]
        if a == '--no-print':
            kw['no_print'] = True
        elif a == '--allow-divergence':
            kw['allow_divergence'] = True
        elif a == '--unsafe-div':
            kw['unsafe_div'] = True
        elif a in ('--max-live', '--max-fields', '--max-params', '--size', '--main-args', '--max-defs', '--max-types'):
            i += 1
            kw[a[2:].replace('-', '_')] = int(argv[i])
        else:
            print("unknown option", a)
            return 2
        i += 1
    opts = Options(**kw)
    os.makedirs(outdir, exist_ok=True)
    sys.setrecursionlimit(10000)
    with open(os.path.join(outdir, f"index_{seed}.txt"), "w") as idx:
        for k in range(n):
            text, nargs, lv = generate(seed, k, opts)
            name = f"ax_{seed}_{k}.sexp"
            with open(os.path.join(outdir, name), "w") as f:
                f.write(text + "\n")
            idx.write(f"{name} {nargs} {lv}\n")
    return 0


if __name__ == '__main__':
    sys.exit(main(sys.argv))
