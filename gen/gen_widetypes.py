#!/usr/bin/env python3
"""gen_widetypes.py <outdir> — programs whose type instances have printed names of every width around the
default line width (100): instance names are built by PRINTING types, so any width-dependent layout in a
printer used for keys shows up as 'type not found' in a later stage.  Width is swept by the length of an
identifier inside a nested pair type."""
import os
import sys


def prog(pad, depth):
    name = "P" + "a" * pad
    ty = "i64"
    val = "n"
    for _ in range(depth):
        ty = "%s[i64, %s]" % (name, ty)
        val = "T(1, %s)" % val
    # destructure one level and sum
    return (
        "data %s[A, B] { T(a: A, b: B) }\n"
        "codata Fun[A, B] { apply(x: A): B }\n"
        "def main(n: i64): i64 { let p: %s = %s; let f: Fun[%s, i64] = new { apply(q) => 7 }; "
        "let r: i64 = p.case[%s] { T(a, b) => a + (f.apply[%s, i64](p)) }; println_i64(r); 0 }\n"
        % (name, ty, val, ty, ty.split("[", 1)[1].rsplit("]", 1)[0] if depth else "", ty)
    )


def main():
    out = sys.argv[1]
    os.makedirs(out, exist_ok=True)
    n = 0
    for depth in (2, 4):
        for pad in range(0, 40):
            src = prog(pad, depth)
            base = os.path.join(out, "w_%d_%02d" % (depth, pad))
            open(base + ".sc", "w").write(src)
            open(base + ".args", "w").write("3\nsequenced widetypes\n")
            n += 1
    print(n, "programs")


if __name__ == "__main__":
    main()
