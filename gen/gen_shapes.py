#!/usr/bin/env python3
"""gen_shapes.py <outdir> — deterministic families of Fun programs for program SHAPES that random generation
reaches too rarely (each added after a seeded change was missed; see DESIGN.md §11.6/§11.7):

  opnd_<pos>_<f1>_<f2>   binder-carrying terms in OPERAND positions: both operands of a comparison, of an
                         operator, two arguments of a call and of a constructor; forms: let-chain re-binding
                         one name, case with pattern variables, label/goto, new + destructor call, call.
                         (uniquify/focus must treat every operand alike: C03)
  dup_<kind>             the same variable passed twice / a closure passed to its own method
                         (`f.ap(f, n)` on a recursive codata type), constructor and call with repeated
                         arguments of object type (linearization must contract explicitly: C05)
  rvd_<k>_<j>            PRINT-FREE programs (RISC-V has no print) on a codata type with k destructors that
                         invoke destructor j; the methods differ observably and use captured variables;
                         the result is main's return value (C08)
  objp_<n>               a pointer variable FIRST in the environment (its block pointer lives in the first
                         register, which the backends use as scratch when loading spilled blocks), n integers,
                         an object of 4..8 fields built, matched in unshared and shared mode (C06, C07, C09)
  argn_<n>              main with n = 0..7 integer parameters, each printed (entry-argument shuffle: C13, C01, C18)
  bal_<kind>[_loop]     BALANCED substitutions: as many variables dropped as extra copies made, with objects /
                         integers / closures on either side (reference counts: C09, C10, C11)
  rvc_<cmp>             print-free: each comparison in two-register and zero form on less/equal/greater (C08)
  gname_<pos>_<v>       a USER binder spelled like a generated name (x0, a0, ..) bound inside a destructor / case
                         scrutinee, call / constructor argument, operand, closure or label body, with a shared
                         continuation below that mentions it (fresh-name pools: C02)
  rvl_<k>               print-free: a literal outside the signed 32-bit range reaches the result (C08)
  pfx_once / pfx_loop   a call whose arguments are exactly the leading context variables while a dead object is
                         bound further right (it must still be erased: C09, C10)
  dsp_<n>_cons|nil      an object variable (or the null pointer Nil) at environment position n, spilled for large n,
                         duplicated by a substitution (C11, C09, C07)
  cap_<n>               n = 129..140 simultaneously live integers at a print: the capacity boundary of the spill
                         tables (x86-64 133, AArch64 140): refuse with the capacity message or run correctly (C09, C13)
  capp_<n>              the same without temporaries: exactly n variables live across the prints
  lzs_<n>_<f>           an object dropped earlier, then an f-field (multi-block) object built with n live integers (C07, C09)
  zhd_<n>_<h>           a list with head element h (0!) matched with n live integers, tail dropped, in a loop (C10, C09)
  nest_<k>              a `case` and a closure on instances whose type arguments are themselves parameterised
                         types in every position (labels are built from printed type names: C14)
Every program has `main(arg: i64): i64`, takes the argument tuple in the sibling .args file."""
import os
import sys

HEAD = """data List[A] { Nil, Cons(x: A, xs: List[A]) }
data Opt { None, Some(v: i64) }
codata Fun[A, B] { apply(x: A): B }
"""

# binder-carrying operand forms; every form evaluates to an integer depending on n
FORMS = {
    "letlet": "(let k: i64 = {n} * 2; let k: i64 = k + {c}; k)",
    "case": "((Cons({n}, Nil)).case[i64] {{ Nil => {c}, Cons(k, t) => k + {c} }})",
    "casenone": "((Some({n} + {c})).case {{ None => 0, Some(k) => k }})",
    "label": "(label k {{ if {n} == {c} {{ goto k ({c}) }} else {{ {n} + {c} }} }})",
    "newdtor": "((new {{ apply(k) => k + {c} }}).apply[i64, i64]({n}))",
    "call": "(idn({n} + {c}))",
    "var": "{n}",
}


def opnd_prog(pos, f1, f2):
    a = FORMS[f1].format(n="n", c=3)
    b = FORMS[f2].format(n="m", c=5)
    if pos == "cmp":
        body = "if %s < %s { n + 1 } else { n + 100 }" % (a, b)
    elif pos == "cmpeq":
        body = "if %s == %s { n + 1 } else { n + 100 }" % (a, b)
    elif pos == "op":
        body = "%s - %s" % (a, b)
    elif pos == "callarg":
        body = "sub2(%s, %s)" % (a, b)
    else:  # ctor
        body = "(Cons(%s, Cons(%s, Nil))).case[i64] { Nil => 0, Cons(h, t) => t.case[i64] { Nil => h, Cons(h2, t2) => (h * 1000) + h2 } }" % (a, b)
    return HEAD + (
        "def idn(x: i64): i64 { x }\n"
        "def sub2(x: i64, y: i64): i64 { x - y }\n"
        "def step(n: i64, m: i64): i64 { %s }\n"
        "def main(arg: i64): i64 { println_i64(step(arg, 2)); println_i64(step(4, arg)); println_i64(step(arg + 7, arg)); 0 }\n" % body
    )


DUP = {
    "selfapp": (
        "codata Rec { ap(r: Rec, n: i64): i64 }\n"
        "def main(arg: i64): i64 { let f: Rec = new { ap(r, n) => if n == 0 { arg } else { (r.ap(r, n - 1)) + n } }; println_i64(f.ap(f, 3)); 0 }\n"
    ),
    "selfapp2": (
        "codata Rec2 { go(a: i64, r: Rec2, s: Rec2): i64 }\n"
        "def main(arg: i64): i64 { let k: i64 = arg + 1; let f: Rec2 = new { go(a, r, s) => if a == 0 { k } else { (s.go(a - 1, r, s)) + a } }; println_i64(f.go(4, f, f)); 0 }\n"
    ),
    "calldup": (
        "def len2(a: List[i64], b: List[i64]): i64 { a.case[i64] { Nil => 0, Cons(h, t) => b.case[i64] { Nil => h, Cons(h2, t2) => h + h2 } } }\n"
        "def main(arg: i64): i64 { let l: List[i64] = Cons(arg, Cons(7, Nil)); println_i64(len2(l, l)); println_i64(len2(l, l)); 0 }\n"
    ),
    "ctordup": (
        "data P { MkP(a: List[i64], b: List[i64], c: List[i64]) }\n"
        "def hd(l: List[i64]): i64 { l.case[i64] { Nil => 0, Cons(h, t) => h } }\n"
        "def main(arg: i64): i64 { let l: List[i64] = Cons(arg + 2, Nil); let p: P = MkP(l, l, l); println_i64(p.case { MkP(a, b, c) => (hd(a) + hd(b)) + hd(c) }); println_i64(hd(l)); 0 }\n"
    ),
    "dtordup": (
        "codata Two { both(a: List[i64], b: List[i64]): i64 }\n"
        "def hd(l: List[i64]): i64 { l.case[i64] { Nil => 0, Cons(h, t) => h } }\n"
        "def main(arg: i64): i64 { let l: List[i64] = Cons(arg + 5, Nil); let o: Two = new { both(a, b) => (hd(a) * 10) + hd(b) }; println_i64(o.both(l, l)); println_i64(o.both(l, Cons(1, Nil))); 0 }\n"
    ),
    "closdup": (
        "def twice(f: Fun[i64, i64], g: Fun[i64, i64], x: i64): i64 { f.apply[i64, i64](g.apply[i64, i64](x)) }\n"
        "def main(arg: i64): i64 { let k: i64 = arg * 3; let f: Fun[i64, i64] = new { apply(x) => x + k }; println_i64(twice(f, f, 1)); println_i64(twice(f, f, 2)); 0 }\n"
    ),
}


def rvd_prog(k, j):
    dts = ", ".join("d%d(x: i64): i64" % i for i in range(k))
    methods = ", ".join("d%d(x) => ((x + c) * %d) + %d" % (i, i + 2, 10 * (i + 1)) for i in range(k))
    return (
        "codata Obj%d { %s }\n" % (k, dts)
        + "def pick(o: Obj%d, y: i64): i64 { o.d%d(y) }\n" % (k, j)
        + "def main(arg: i64): i64 { let c: i64 = arg + 1; let o: Obj%d = new { %s }; pick(o, 5) + (o.d%d(arg)) }\n" % (k, methods, (j + 1) % k)
    )


def objp_prog(n, nf):
    lets = ["let v0l: List[i64] = Cons(arg + 40, Nil);"] + ["let v%d: i64 = %d;" % (i, 10 + i) for i in range(1, n)]
    tot = "0"
    for i in range(1, n):
        tot = "(%s + v%d)" % (tot, i)
    fields = ", ".join("f%d: i64" % i for i in range(nf))
    args = ", ".join(str(100 + i) for i in range(nf))
    names = ", ".join("g%d" % i for i in range(nf))
    s = "0"
    for i in range(nf):
        s = "(%s + g%d)" % (s, i)
    hd = "v0l.case[i64] { Nil => 0, Cons(h, t) => h }"
    return HEAD + "data Big { Mk(%s), Other }\n" % fields + (
        "def main(arg: i64): i64 { %s let o: Big = Mk(%s); "
        "let r1: i64 = o.case { Mk(%s) => %s + %s, Other => 0 }; println_i64(r1); "   # shared load (o used again)
        "let r2: i64 = o.case { Mk(%s) => %s + %s, Other => 0 }; println_i64(r2); "   # unshared load (last use)
        "println_i64(%s); println_i64(%s); 0 }\n" % (" ".join(lets), args, names, s, tot, names, s, tot, hd, tot)
    )


NEST_TYPES = [
    "Pair[List[i64], i64]", "Pair[i64, List[i64]]", "Pair[Pair[i64, i64], List[i64]]", "Pair[List[Pair[i64, i64]], Pair[i64, i64]]",
    "Pair[Fun[i64, i64], i64]", "Pair[List[List[i64]], List[i64]]",
]


def nest_prog(k):
    """a `case` on an instance whose type arguments are themselves parameterised, in every argument position
    (the jump-table / clause labels are built from the printed type name), plus a closure of such a type"""
    ty = NEST_TYPES[k]
    a, b = split_args(ty)

    def val(t):
        if t == "i64":
            return "arg"
        if t.startswith("List["):
            return "Nil"
        if t.startswith("Fun["):
            return "new { apply(x) => x + 1 }"
        x, y = split_args(t)
        return "Tup(%s, %s)" % (val(x), val(y))

    return HEAD + "data Pair[A, B] { Tup(a: A, b: B), NoPair }\n" + (
        "def use(p: %s, n: i64): i64 { p.case[%s, %s] { Tup(x, y) => n + 1, NoPair => n } }\n"
        "def main(arg: i64): i64 { let p: %s = Tup(%s, %s); let f: Fun[%s, i64] = new { apply(q) => use(q, 40) }; println_i64(use(p, arg)); println_i64(f.apply[%s, i64](p)); 0 }\n"
        % (ty, a, b, ty, val(a), val(b), ty, ty)
    )


def split_args(ty):
    inner = ty[ty.index("[") + 1:-1]
    depth = 0
    for i, ch in enumerate(inner):
        depth += ch == "["
        depth -= ch == "]"
        if ch == "," and depth == 0:
            return inner[:i].strip(), inner[i + 1:].strip()
    raise ValueError(ty)


def argn_prog(n):
    """main with n integer parameters: every parameter printed in order, result = first parameter"""
    params = ", ".join("p%d: i64" % i for i in range(1, n + 1))
    body = " ".join("println_i64(p%d);" % i for i in range(1, n + 1))
    return "def main(%s): i64 { %s %s }\n" % (params, body, "p1" if n else "42")


# balanced substitutions: as many variables dropped as extra copies made (a reordering in LENGTH only)
BAL = {
    "objobj": ("def two(a: List[i64], b: List[i64]): i64 { hd(a) + hd(b) }\n"
               "def replace(old: List[i64], l: List[i64]): i64 { two(l, l) }\n",
               "replace(Cons(arg, Nil), Cons(arg + 1, Nil))"),
    "intobj": ("def two(a: List[i64], b: List[i64]): i64 { hd(a) + hd(b) }\n"
               "def both(l: List[i64], unused: i64): i64 { two(l, l) }\n",
               "both(Cons(arg + 2, Nil), 9)"),
    "objint": ("def add(a: i64, b: i64): i64 { a + b }\n"
               "def step(l: List[i64], i: i64): i64 { add(i, i) }\n",
               "step(Cons(arg, Cons(arg, Nil)), arg + 3)"),
    "obj2": ("def four(a: List[i64], b: List[i64], c: List[i64], d: List[i64]): i64 { (hd(a) + hd(b)) + (hd(c) + hd(d)) }\n"
             "def swap2(o1: List[i64], o2: List[i64], l: List[i64], m: List[i64]): i64 { four(l, l, m, m) }\n",
             "swap2(Cons(1, Nil), Cons(2, Nil), Cons(arg, Nil), Cons(arg + 4, Nil))"),
    "clos": ("def app2(f: Fun[i64, i64], g: Fun[i64, i64]): i64 { f.apply[i64, i64](g.apply[i64, i64](1)) }\n"
             "def replacef(old: Fun[i64, i64], f: Fun[i64, i64]): i64 { app2(f, f) }\n",
             "replacef(new { apply(x) => x }, new { apply(x) => x + arg })"),
}


def bal_prog(k, loop):
    defs, call = BAL[k]
    pre = "def hd(l: List[i64]): i64 { l.case[i64] { Nil => 0, Cons(h, t) => h } }\n"
    if loop:
        # the same balanced substitution executed repeatedly: a leak or an early release accumulates
        return HEAD + pre + defs + (
            "def loop(n: i64, acc: i64, arg: i64): i64 { if n <= 0 { acc } else { loop(n - 1, acc + %s, arg) } }\n"
            "def main(arg: i64): i64 { println_i64(loop(6, 0, arg)); 0 }\n" % call)
    return HEAD + pre + defs + "def main(arg: i64): i64 { println_i64(%s); println_i64(%s); 0 }\n" % (call, call)


CMPS = {"eq": "==", "ne": "!=", "lt": "<", "le": "<=", "gt": ">", "ge": ">="}


def rvc_prog(name):
    """PRINT-FREE: one comparison in two-register and in zero form, evaluated on less / equal / greater operands;
    the result encodes the six outcomes decimally"""
    op = CMPS[name]
    return (
        "def c2(a: i64, b: i64): i64 { if a %s b { 1 } else { 0 } }\n"
        "def c0(a: i64): i64 { if a %s 0 { 1 } else { 0 } }\n"
        "def main(arg: i64): i64 { (((c2(arg, arg + 1) * 100000) + (c2(arg, arg) * 10000)) + ((c2(arg + 1, arg) * 1000) + (c0(arg - arg) * 100))) + ((c0((arg - arg) - 1) * 10) + c0((arg - arg) + 1)) }\n"
        % (op, op)
    )


# user binders spelled like GENERATED names (x0, x1, a0, a1 ...), bound inside every kind of sub-term position,
# with a shared continuation below that mentions them (fresh-name pools must know every user binder)
GENNAME_POS = {
    "dtorscrut": "(let {v}: List[i64] = Cons(7, Nil); new {{ apply(n) => (if c == 0 {{ Nil }} else {{ Cons(n, Nil) }}).case[i64] {{ Nil => hd({v}), Cons(h, t) => h }} }}).apply[i64, i64](5)",
    "casescrut": "(let {v}: List[i64] = Cons(7, Nil); if c == 0 {{ {v} }} else {{ Cons(9, {v}) }}).case[i64] {{ Nil => 0, Cons(h, t) => h + hd(t) }}",
    "callarg": "add2((let {v}: i64 = c + 7; if c == 0 {{ {v} }} else {{ {v} + 1 }}), 5)",
    "ctorarg": "hd(Cons((let {v}: i64 = c + 7; if c == 0 {{ {v} }} else {{ {v} + 1 }}), Nil))",
    "opopnd": "3 + (let {v}: i64 = c + 7; if c == 0 {{ {v} }} else {{ {v} + 1 }})",
    "ifopnd": "if (let {v}: i64 = c + 7; if c == 0 {{ {v} }} else {{ {v} + 1 }}) < 9 {{ 1 }} else {{ 2 }}",
    "newbody": "(new {{ apply(n) => let {v}: i64 = n + c; if c == 0 {{ {v} }} else {{ {v} * 2 }} }}).apply[i64, i64](5)",
    "labelbody": "label k {{ let {v}: i64 = c + 7; if c == 0 {{ goto k ({v}) }} else {{ {v} + 1 }} }}",
}
GENNAMES = ["x0", "x1", "a0", "a1", "x2"]


def genname_prog(pos, v):
    body = GENNAME_POS[pos].format(v=v)
    return HEAD + (
        "def hd(l: List[i64]): i64 { l.case[i64] { Nil => -1, Cons(h, t) => h } }\n"
        "def add2(a: i64, b: i64): i64 { a + b }\n"
        "def pick(c: i64): i64 { %s }\n"
        "def main(arg: i64): i64 { println_i64(pick(0)); println_i64(pick(arg)); 0 }\n" % body
    )


RV_LITS = [2147483647, 2147483648, 4294967296, 4294967301, -2147483648, -2147483649, 9223372036854775807, -9223372036854775807, 281474976710656, 65541]


def rvl_prog(k):
    """print-free: a literal outside the 32-bit range reaches the result"""
    return "def main(arg: i64): i64 { (arg - arg) + %d }\n" % RV_LITS[k]


def prefixcall_prog(loop):
    """a call whose arguments are exactly the LEADING context variables, with a dead heap variable further right"""
    if loop:
        return HEAD + (
            "def build(n: i64, acc: List[i64]): List[i64] { if n <= 0 { acc } else { build(n - 1, Cons(n, acc)) } }\n"
            "def peek(n: i64, acc: i64, l: List[i64]): i64 { l.case[i64] { Nil => acc, Cons(x, xs) => loop(n, acc) } }\n"
            "def loop(n: i64, acc: i64): i64 { if n <= 0 { acc } else { peek(n - 1, acc + 1, build(5, Nil)) } }\n"
            "def main(arg: i64): i64 { println_i64(loop(6, arg)); 0 }\n")
    return HEAD + (
        "def two(a: i64, b: i64): i64 { a + b }\n"
        "def f(n: i64, acc: i64, l: List[i64]): i64 { l.case[i64] { Nil => acc, Cons(x, xs) => two(n, acc) } }\n"
        "def main(arg: i64): i64 { println_i64(f(arg, 5, Cons(1, Cons(2, Nil)))); println_i64(f(arg, 6, Nil)); 0 }\n")


def dupspill_prog(n, nil):
    """an OBJECT variable at position n (spilled for large n; optionally the null pointer Nil) is duplicated by a substitution"""
    params = ", ".join("p%d: i64" % i for i in range(n)) + (", " if n else "") + "l: List[i64]"
    args = ", ".join(str(10 + i) for i in range(n)) + (", " if n else "") + ("Nil" if nil else "Cons(arg, Cons(3, Nil))")
    tot = "0"
    for i in range(n):
        tot = "(%s + p%d)" % (tot, i)
    return HEAD + (
        "def hd(l: List[i64]): i64 { l.case[i64] { Nil => 0, Cons(h, t) => h } }\n"
        "def use(%s): i64 { (hd(l) + hd(l)) + %s }\n"
        "def main(arg: i64): i64 { println_i64(use(%s)); println_i64(use(%s)); 0 }\n" % (params, tot, args, args))


def cap_prog(n):
    """n simultaneously live integer variables at a print (capacity boundary of the spill table: the backends either
    refuse with their capacity message or must run correctly)"""
    lets = " ".join("let v%d: i64 = %d;" % (i, 1000 + i) if i else "let v0: i64 = arg + 1000;" for i in range(n))
    tot = "0"
    for i in range(n):
        tot = "(%s + v%d)" % (tot, i)
    return "def main(arg: i64): i64 { %s println_i64(v%d); println_i64(%s); println_i64(v%d); 0 }\n" % (lets, n - 1, tot, n - 1)


def capp_prog(n):
    """exactly n live integer variables across a print and NO temporaries: last variable printed, first printed, last again"""
    lets = " ".join("let v%d: i64 = %d;" % (i, 1000 + i) if i else "let v0: i64 = arg + 1000;" for i in range(n))
    keep = " ".join("println_i64(v%d);" % i for i in (n - 1, 0, n // 2, n - 1))
    # every variable stays live until the last print: print them all once afterwards
    rest = " ".join("print_i64(v%d);" % i for i in range(n))
    return "def main(arg: i64): i64 { %s %s %s 0 }\n" % (lets, keep, rest)


def lzs_prog(n, nf):
    """an object was dropped earlier (lazy free list non-empty), then an object of nf > 3 fields (several blocks) is
    built while n other integers are live (block links spilled for large n), matched and its fields printed"""
    xs = ", ".join("x%d: i64" % i for i in range(n))
    xargs = ", ".join("x%d" % i for i in range(n))
    vals = ", ".join(str(i + 1) for i in range(n))
    tot = "0"
    for i in range(n):
        tot = "(%s + x%d)" % (tot, i)
    fields = ", ".join("f%d: i64" % i for i in range(nf))
    names = ", ".join("g%d" % i for i in range(nf))
    prints = " ".join("println_i64(g%d);" % i for i in range(nf))
    qargs = ", ".join(["a", "b", "c", "d", "a", "b", "c", "d"][:nf])
    sep = ", " if n else ""
    return (
        "data Wide { Q(%s) }\ndata Box { B(x: i64) }\ndata Trip { T(x: i64, y: i64, z: Box) }\n"
        "def use(q: Wide%s%s): i64 { q.case { Q(%s) => %s %s } }\n"
        "def go(%s%sa: i64, b: i64, c: i64, d: i64): i64 { let t: Trip = T(a, b, B(c)); use(Q(%s)%s%s) }\n"
        "def main(arg: i64): i64 { println_i64(go(%s%s101, 102, 103, arg)); println_i64(go(%s%s201, 202, 203, arg)); 0 }\n"
        % (fields, sep, xs, names, prints, tot, xs, sep, qargs, sep, xargs, vals, sep, vals, sep)
    )


def zhd_prog(nlive, head):
    """a list whose HEAD ELEMENT is `head` (0 leaves a zero in a scratch register) is matched with nlive other live
    integers and its tail dropped, in a loop"""
    ps = ", ".join("p%d: i64" % i for i in range(nlive))
    vs = ", ".join(str(i + 1) for i in range(nlive))
    tot = "x"
    for i in range(nlive):
        tot = "(%s + p%d)" % (tot, i)
    return HEAD + (
        "def build(n: i64, acc: List[i64]): List[i64] { if n == 0 { acc } else { build(n - 1, Cons(n, acc)) } }\n"
        "def first(l: List[i64], %s): i64 { l.case[i64] { Nil => p0, Cons(x, xs) => %s } }\n"
        "def loop(n: i64, v: i64, total: i64): i64 { if n == 0 { total } else { loop(n - 1, v, total + first(Cons(v, build(6, Nil)), %s)) } }\n"
        "def main(arg: i64): i64 { println_i64(loop(4, %d, arg)); 0 }\n" % (ps, tot, vs, head)
    )


def main():
    out = sys.argv[1]
    os.makedirs(out, exist_ok=True)
    n = 0

    def emit(name, src, args="3"):
        nonlocal n
        open(os.path.join(out, name + ".sc"), "w").write(src)
        open(os.path.join(out, name + ".args"), "w").write(args + "\nshapes\n")
        n += 1

    forms = list(FORMS)
    for pos in ("cmp", "cmpeq", "op", "callarg", "ctor"):
        for f1 in forms:
            for f2 in forms:
                if f1 == "var" and f2 == "var":
                    continue
                # the full square for comparisons (the two operands are stored differently), a band elsewhere
                if pos not in ("cmp", "cmpeq") and forms.index(f1) != forms.index(f2) and "var" not in (f1, f2) and (forms.index(f1) + forms.index(f2)) % 3:
                    continue
                emit("opnd_%s_%s_%s" % (pos, f1, f2), opnd_prog(pos, f1, f2))
    for k, src in DUP.items():
        emit("dup_" + k, HEAD + src)
    for k in (2, 3, 4):
        for j in range(k):
            emit("rvd_%d_%d" % (k, j), rvd_prog(k, j))
    for nn in (1, 2, 5, 6, 7, 9, 13, 14, 16):
        for nf in (4, 5, 7, 8):
            if nn in (1, 2, 16) and nf in (5, 7):
                continue
            emit("objp_%02d_%d" % (nn, nf), objp_prog(nn, nf))
    for nn in range(0, 8):
        emit("argn_%d" % nn, argn_prog(nn), " ".join(str(11 * (i + 1)) for i in range(nn)))
    for k in BAL:
        emit("bal_%s" % k, bal_prog(k, False))
        emit("bal_%s_loop" % k, bal_prog(k, True))
    for k in CMPS:
        emit("rvc_%s" % k, rvc_prog(k))
    for pos in GENNAME_POS:
        for v in GENNAMES[: (5 if pos in ("dtorscrut", "casescrut") else 2)]:
            emit("gname_%s_%s" % (pos, v), genname_prog(pos, v))
    for k in range(len(RV_LITS)):
        emit("rvl_%d" % k, rvl_prog(k))
    emit("pfx_once", prefixcall_prog(False))
    emit("pfx_loop", prefixcall_prog(True))
    for nn in (0, 5, 6, 12, 13, 14, 15, 17):
        emit("dsp_%02d_cons" % nn, dupspill_prog(nn, False))
        emit("dsp_%02d_nil" % nn, dupspill_prog(nn, True))
    for nn in (129, 130, 131, 132, 133, 134, 136, 137, 138, 139, 140):
        emit("cap_%d" % nn, cap_prog(nn))
    for nn in (131, 132, 133, 134, 135, 139, 140, 141, 142):
        emit("capp_%d" % nn, capp_prog(nn))
    for nn in (0, 11, 12, 13, 14):
        for nf in (4, 7):
            emit("lzs_%02d_%d" % (nn, nf), lzs_prog(nn, nf))
    for nn in (5, 12, 13, 14):
        for hd in (0, 7):
            emit("zhd_%02d_%d" % (nn, hd), zhd_prog(nn, hd))
    for k in range(len(NEST_TYPES)):
        emit("nest_%d" % k, nest_prog(k))
    print(n, "programs")


if __name__ == "__main__":
    main()
