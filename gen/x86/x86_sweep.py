#!/usr/bin/env python3
"""x86_sweep.py <outdir>: targeted LINEAR AxCut programs (`axcutlin <file>.lin.sexp`) for the x86-64
code-generation tie: context sizes 0..24 (spills start at position 6), objects/closures of 0..8 fields,
all operators x operand/target placements around the spill boundary, all 12 comparison forms,
literals of every magnitude, prints with every context size and kind mix, substitutions (cycles
through registers and spill slots).  Every program has a trivial `main`; the other definitions take
the context under test as parameters, so no set-up code is needed."""
import sys, os, random, itertools

def q(s): return '"' + s + '"'
def ident(n, i): return f'(id {q(n)} {i})'
def ty(t): return 'i64' if t == 'i64' else f'(ty {ident(t, 0)})'
def b(v, chi, t): return f'(b {ident(*v)} {chi} {ty(t)})'
def ctx(bs): return '(ctx' + ''.join(' ' + b(*x) for x in bs) + ')'

class P:
    def __init__(self):
        self.n = 0; self.types = {}; self.defs = []
        self.add_type('Unit', [('U', [])])
    def fresh(self, name='v'):
        self.n += 1; return (name, self.n)
    def add_type(self, name, xtors):
        self.types[name] = xtors
    def render(self):
        ts = ' '.join('(type ' + ident(n, 0) + ''.join(f' (xtor {ident(x, 0)} {ctx(a)})' for x, a in xs) + ')'
                      for n, xs in self.types.items())
        ds = ' '.join(f'(def {ident(n, 0)} {ctx(c)} {body})' for n, c, body in self.defs)
        return f'(axprog {self.n} (types {ts}) (defs {ds}))'
    def main(self):
        x = self.fresh('r')
        self.defs.insert(0, ('main', [], f'(lit {ident(*x)} 0 (exit {ident(*x)}) none)'))

def mkctx(p, kinds):
    """kinds: string over e (ext), p (prd Unit), c (cns Unit)"""
    out = []
    for k in kinds:
        v = p.fresh({'e': 'x', 'p': 'o', 'c': 'k'}[k])
        out.append((v, {'e': 'ext', 'p': 'prd', 'c': 'cns'}[k], 'i64' if k == 'e' else 'Unit'))
    return out

def lit(v, n, nxt): return f'(lit {ident(*v)} {n} {nxt} none)'
def op(v, a, o, c, nxt): return f'(op {ident(*v)} {ident(*a)} {o} {ident(*c)} {nxt} none)'
def exitS(v): return f'(exit {ident(*v)})'
def printS(nl, v, nxt): return f'(print {"nl" if nl else "nonl"} {ident(*v)} {nxt} none)'
def ifc(sort, a, c, th, el): return f'(ifc {sort} {ident(*a)} {ident(*c) if c else "none"} {th} {el})'
def subst(pairs, nxt): return '(subst (pairs' + ''.join(f' (pair {b(*nb)} {ident(*old)})' for nb, old in pairs) + f') {nxt})'
def letS(v, t, tag, args, nxt): return f'(let {ident(*v)} {ty(t)} {ident(tag, 0)} {ctx(args)} {nxt} none)'
def switch(v, t, clauses): return f'(switch {ident(*v)} {ty(t)} (clauses' + ''.join(f' (clause {ident(x, 0)} {ctx(c)} {body})' for x, c, body in clauses) + ') none)'
def create(v, t, env, clauses, nxt): return f'(create {ident(*v)} {ty(t)} {ctx(env)} (clauses' + ''.join(f' (clause {ident(x, 0)} {ctx(c)} {body})' for x, c, body in clauses) + f') {nxt} none none)'
def invoke(v, tag, t): return f'(invoke {ident(*v)} {ident(tag, 0)} {ty(t)} (ctx))'
def call(f): return f'(call {ident(f, 0)} (ctx))'

files = []
def emit(outdir, name, p):
    p.main()
    path = os.path.join(outdir, name + '.lin.sexp')
    open(path, 'w').write(p.render() + '\n'); files.append(path)

def first_ext(c):
    for v, chi, t in c:
        if chi == 'ext': return v
    return None

def sweep(outdir):
    rnd = random.Random(20260925)
    kindmixes = lambda n: ['e' * n, ''.join('epc'[i % 3] for i in range(n)), ''.join('pe'[i % 2] for i in range(n))]
    # A: operators x placements: context of N ext variables, target = position N
    for N in range(1, 11):
        p = P(); k = 0
        cand = sorted(set([0, 1, 4, 5, 6, 7, N - 1]) & set(range(N)))
        for o in '+-*/%':
            for ia in cand:
                for ib in cand:
                    c = mkctx(p, 'e' * N); t = p.fresh('t')
                    p.defs.append((f'f{k}', c, op(t, c[ia][0], o, c[ib][0], exitS(t)))); k += 1
        emit(outdir, f'opsA_{N}', p)
    # A1: aliasing: the target variable re-uses the id of a variable of the context (the code
    # generator then takes the OLD variable's temporary as target: target == source placements)
    for N in [2, 6, 7, 9]:
        p = P(); k = 0
        cand = sorted(set([0, 1, 5, 6, 7, N - 1]) & set(range(N)))
        for o in '+-*/%':
            for it in cand:
                for io in cand:
                    for (ia, ib) in [(it, io), (io, it), (it, it)]:
                        c = mkctx(p, 'e' * N)
                        p.defs.append((f'f{k}', c, op(c[it][0], c[ia][0], o, c[ib][0], exitS(c[it][0])))); k += 1
        emit(outdir, f'alias_{N}', p)
    # A2: mixed-kind contexts (ext operands at odd places), sizes 0..24
    for N in range(2, 25):
        p = P(); k = 0
        for mix in kindmixes(N):
            c = mkctx(p, mix); es = [v for v, chi, _ in c if chi == 'ext']
            if len(es) < 1: continue
            for o in '+-*/%':
                t = p.fresh('t'); a = rnd.choice(es); bb = rnd.choice(es)
                p.defs.append((f'f{k}', c, op(t, a, o, bb, op(p.fresh('u'), t, o, a, exitS(t))))); k += 1
                c = mkctx(p, mix); es = [v for v, chi, _ in c if chi == 'ext']
        emit(outdir, f'opsB_{N}', p)
    # B: comparisons: 6 sorts x (zero | two operands) x placements
    for N in range(1, 10):
        p = P(); k = 0
        cand = sorted(set([0, 1, 5, 6, 7, N - 1]) & set(range(N)))
        for sort in ['eq', 'ne', 'lt', 'le', 'gt', 'ge']:
            for ia in cand:
                c = mkctx(p, 'e' * N)
                p.defs.append((f'f{k}', c, ifc(sort, c[ia][0], None, exitS(c[ia][0]), exitS(c[0][0])))); k += 1
                for ib in cand:
                    c = mkctx(p, 'e' * N)
                    p.defs.append((f'f{k}', c, ifc(sort, c[ia][0], c[ib][0], exitS(c[ia][0]), exitS(c[ib][0])))); k += 1
        emit(outdir, f'cmp_{N}', p)
    # C: literals of every magnitude x target placement
    mags = [0, 1, -1, 2, 255, 65535, 65536, -65536, 2**31 - 2, 2**31 - 1, 2**31, 2**31 + 1, -2**31 + 1, -2**31, -2**31 - 1,
            2**32 - 1, 2**32, 2**32 + 1, -2**32, 2**48, 0xffff0000ffff, 2**63 - 1, -2**63, -2**63 + 1, 0x7fff0000ffff0000]
    for N in [0, 3, 5, 6, 7, 12, 24]:
        p = P(); k = 0
        for m in mags:
            c = mkctx(p, 'e' * N); t = p.fresh('t')
            p.defs.append((f'f{k}', c, lit(t, m, exitS(t)))); k += 1
        emit(outdir, f'lit_{N}', p)
    # D: let / switch with objects of 0..8 fields, remaining context R
    for nf in range(0, 9):
        for R in [0, 2, 4, 5, 6, 7, 11]:
            p = P(); k = 0
            for mix in kindmixes(nf) if nf else ['']:
                # type with 3 xtors, the middle one has the fields
                fields_sig = mkctx(p, mix)
                p.add_type(f'T{k}', [('A', []), ('K', fields_sig), ('Z', [])])
                p.add_type(f'S{k}', [('K', fields_sig)])
                for T in [f'T{k}', f'S{k}']:
                    rem = mkctx(p, 'e' * R); args = mkctx(p, mix); x = p.fresh('x')
                    xt = p.types[T]
                    cls = []
                    for (xn, sig) in xt:
                        cc = mkctx(p, ''.join({'ext': 'e', 'prd': 'p', 'cns': 'c'}[s[1]] for s in sig))
                        allc = rem + cc
                        e = first_ext(allc)
                        body = exitS(e) if e else lit(p.fresh('z'), 7, exitS(('z', p.n)))
                        cls.append((xn, cc, body))
                    body = letS(x, T, 'K', args, switch(x, T, cls))
                    p.defs.append((f'f{k}_{T}', rem + args, body))
                k += 1
            emit(outdir, f'obj_{nf}_{R}', p)
    # E: create / invoke with closure environments of 0..8 fields
    for nf in range(0, 9):
        for R in [0, 3, 5, 6, 8]:
            p = P(); k = 0
            for mix in kindmixes(nf) if nf else ['']:
                argsig = mkctx(p, 'ep')
                p.add_type(f'C{k}', [('m1', argsig), ('m2', [])])
                p.add_type(f'D{k}', [('m1', argsig)])
                for T in [f'C{k}', f'D{k}']:
                    rem = mkctx(p, 'e' * R); env = mkctx(p, mix); x = p.fresh('k')
                    cls = []
                    for (xn, sig) in p.types[T]:
                        cc = mkctx(p, ''.join({'ext': 'e', 'prd': 'p', 'cns': 'c'}[s[1]] for s in sig))
                        envc = mkctx(p, mix)  # binder names of the environment inside the method
                        e = first_ext(cc + envc)
                        body = exitS(e) if e else lit(p.fresh('z'), 7, exitS(('z', p.n)))
                        cls.append((xn, cc, body))
                    # methods see clause ctx ++ env (same binders as env in the model: reuse env names)
                    cls = [(xn, cc, exitS(first_ext(cc + env)) if first_ext(cc + env) else lit(p.fresh('z'), 7, exitS(('z', p.n)))) for (xn, cc, _) in cls]
                    a1 = p.fresh('a'); a2 = p.fresh('o')
                    nxt = subst([((a1, 'ext', 'i64'), rem[0][0] if rem else x), ((a2, 'prd', 'Unit'), x), ((x, 'cns', T), x)] if False else
                                [((x, 'cns', T), x)], invoke(x, 'm1', T))
                    p.defs.append((f'f{k}_{T}', rem + env, create(x, T, env, cls, nxt)))
                k += 1
            emit(outdir, f'clo_{nf}_{R}', p)
    # F: substitutions around the spill boundary: permutations, duplications, drops
    for N in [2, 4, 6, 7, 8, 10, 14]:
        for rep in range(3):
            p = P(); k = 0
            for mix in kindmixes(N):
                for _ in range(6):
                    c = mkctx(p, mix)
                    m = rnd.randint(0, min(N + 3, 24))
                    pairs = []
                    srcs = [rnd.choice(c) for _ in range(m)] if rep else rnd.sample(c, min(m, N))
                    if rep == 2: rnd.shuffle(srcs)
                    for (v, chi, t) in srcs:
                        nv = p.fresh(v[0]) if rnd.random() < 0.7 else v
                        if any(nv == pv[0][0] for pv in pairs): nv = p.fresh(v[0])
                        pairs.append(((nv, chi, t), v))
                    newc = [nb for nb, _ in pairs]
                    e = first_ext(newc)
                    body = exitS(e) if e else lit(p.fresh('z'), 7, exitS(('z', p.n)))
                    p.defs.append((f'f{k}', c, subst(pairs, body))); k += 1
            emit(outdir, f'sub_{N}_{rep}', p)
    # F2: pure rotations / swaps of a window across the boundary (cycles through spills)
    for N in [7, 8, 9, 12]:
        p = P(); k = 0
        for mix in kindmixes(N):
            for shift in range(1, N):
                c = mkctx(p, mix)
                kinds_ok = all(c[i][1:] == c[(i + shift) % N][1:] for i in range(N))
                if not kinds_ok and mix != 'e' * N: continue
                pairs = [((p.fresh('y'), c[i][1], c[i][2]), c[(i + shift) % N][0]) for i in range(N)]
                p.defs.append((f'f{k}', c, subst(pairs, exitS(first_ext([nb for nb, _ in pairs]))))); k += 1
        emit(outdir, f'rot_{N}', p)
    # G: print with every context size and kind mix, source placement
    for N in range(1, 25):
        p = P(); k = 0
        for mix in kindmixes(N) + ['p' * (N - 1) + 'e', 'e' + 'c' * (N - 1)]:
            c = mkctx(p, mix); es = [v for v, chi, _ in c if chi == 'ext']
            if not es: continue
            for idx in sorted({0, len(es) - 1, len(es) // 2}):
                v = es[idx]
                p.defs.append((f'f{k}', c, printS(k % 2 == 0, v, exitS(v)))); k += 1
                c = mkctx(p, mix); es = [v for v, chi, _ in c if chi == 'ext']
        emit(outdir, f'print_{N}', p)
    # H: calls and capacity panic
    p = P(); c = mkctx(p, 'e' * 3); p.defs.append(('g', c, call('g'))); emit(outdir, 'call', p)
    p = P(); c = mkctx(p, 'e' * 140); t = p.fresh('t'); p.defs.append(('g', c, lit(t, 1, exitS(t)))); emit(outdir, 'capacity', p)
    return files

if __name__ == '__main__':
    out = sys.argv[1]; os.makedirs(out, exist_ok=True)
    fs = sweep(out)
    print(len(fs), 'programs')
