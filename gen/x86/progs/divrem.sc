def main(a: i64, b: i64): i64 {
  let x1: i64 = (a * 1) + b;
  let x2: i64 = (a * 2) + b;
  let x3: i64 = (a * 3) + b;
  let x4: i64 = (a * 4) + b;
  let x5: i64 = (a * 5) + b;
  let x6: i64 = (a * 6) + b;
  let x7: i64 = (a * 7) + b;
  let x8: i64 = (a * 8) + b;
  let x9: i64 = (a * 9) + b;
  let x10: i64 = (a * 10) + b;
  let x11: i64 = (a * 11) + b;
  let x12: i64 = (a * 12) + b;
  println_i64(x1 / x12);
  println_i64(x12 % x1);
  println_i64(x3 / x10);
  println_i64(x10 % x3);
  println_i64(x5 / x8);
  println_i64(x8 % x5);
  println_i64(x7 / x6);
  println_i64(x6 % x7);
  println_i64(x9 / x4);
  println_i64(x4 % x9);
  println_i64(x11 / x2);
  println_i64(x2 % x11);
  println_i64(((a / b) * b) + (a % b));
  0 }
