data List[A] { Nil, Cons(x: A, xs: List[A]) }
def range(n: i64, acc: List[i64]): List[i64] { if n == 0 { acc } else { range(n - 1, Cons(n, acc)) } }
def sum(l: List[i64]): i64 { l.case[i64] { Nil => 0, Cons(x, xs) => x + sum(xs) } }
def len(l: List[i64]): i64 { l.case[i64] { Nil => 0, Cons(x, xs) => 1 + len(xs) } }
def app(l: List[i64], r: List[i64]): List[i64] { l.case[i64] { Nil => r, Cons(x, xs) => Cons(x, app(xs, r)) } }
def loop(k: i64, n: i64, acc: i64): i64 { if k == 0 { acc } else { loop(k - 1, n, acc + sum(range(n, Nil))) } }
def main(n: i64, k: i64): i64 {
  let l: List[i64] = range(n, Nil);
  println_i64(sum(l) + len(l));
  let m: List[i64] = app(l, l);
  println_i64(len(m));
  println_i64(loop(k, n, 0));
  sum(app(m, l)) }
