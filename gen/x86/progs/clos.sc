codata Fun[A, B] { apply(x: A): B }
def twice(f: Fun[i64, i64], x: i64): i64 { f.apply[i64, i64](f.apply[i64, i64](x)) }
def main(a: i64): i64 {
  let e0: i64 = a + 0;
  let e1: i64 = a + 1;
  let e2: i64 = a + 2;
  let e3: i64 = a + 3;
  let e4: i64 = a + 4;
  let e5: i64 = a + 5;
  let e6: i64 = a + 6;
  let e7: i64 = a + 7;
  let e8: i64 = a + 8;
  let f: Fun[i64, i64] = new { apply(x) => (((((((((x + e0) + e1) + e2) + e3) + e4) + e5) + e6) + e7) + e8) };
  println_i64(twice(f, 1));
  println_i64(twice(f, a));
  0 }
