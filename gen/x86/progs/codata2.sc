codata Acc { add(x: i64): Acc, get: i64, scale(k: i64, m: i64): Acc }
def mk(v: i64): Acc { new { add(x) => mk(v + x), get => v, scale(k, m) => mk((v * k) + m) } }
def main(a: i64, b: i64): i64 {
  let o: Acc = mk(a);
  println_i64(o.add(b).scale(3, 1).add(a).get);
  println_i64(label k { if a < b { goto k (a) } else { b } });
  0 }
