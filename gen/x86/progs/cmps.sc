def main(a: i64, b: i64): i64 {
  print_i64(if a == b {1} else {0});
  print_i64(if a != b {1} else {0});
  print_i64(if a < b {1} else {0});
  print_i64(if a <= b {1} else {0});
  print_i64(if a > b {1} else {0});
  print_i64(if a >= b {1} else {0});
  print_i64(if a == 0 {1} else {0});
  print_i64(if a != 0 {1} else {0});
  print_i64(if a < 0 {1} else {0});
  print_i64(if a <= 0 {1} else {0});
  print_i64(if a > 0 {1} else {0});
  print_i64(if a >= 0 {1} else {0});
  print_i64(if 0 == b {1} else {0});
  print_i64(if 0 != b {1} else {0});
  print_i64(if 0 < b {1} else {0});
  print_i64(if 0 <= b {1} else {0});
  print_i64(if 0 > b {1} else {0});
  print_i64(if 0 >= b {1} else {0});
  println_i64(0);
  0 }
