data Box { B(v: i64) }
data Pair { P(a: Box, b: Box) }
def unb(b: Box): i64 { b.case { B(v) => v } }
def main(a: i64): i64 {
  let b1: Box = B(a + 1);
  let b2: Box = B(a + 2);
  let b3: Box = B(a + 3);
  let b4: Box = B(a + 4);
  let b5: Box = B(a + 5);
  let b6: Box = B(a + 6);
  let b7: Box = B(a + 7);
  let b8: Box = B(a + 8);
  println_i64(a);
  let p: Pair = P(b7, b8);
  println_i64(unb(b1) + unb(b2));
  println_i64(unb(b3) * unb(b4));
  let q: Pair = P(b5, b5);
  println_i64(unb(b6));
  println_i64(p.case { P(x, y) => unb(x) - unb(y) });
  println_i64(q.case { P(x, y) => unb(x) * unb(y) });
  0 }
