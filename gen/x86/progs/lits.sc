def main(): i64 {
  println_i64(0);
  println_i64(1);
  println_i64(-1);
  println_i64(2147483647);
  println_i64(-2147483648);
  println_i64(2147483648);
  println_i64(-2147483649);
  println_i64(4294967296);
  println_i64(9223372036854775807);
  println_i64(-9223372036854775807);
  println_i64(65535);
  println_i64(65536);
  println_i64(281474976710655);
  println_i64((0 - 9223372036854775807) - 1);
  0 }
