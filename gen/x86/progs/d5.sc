def main(): i64 {
  let x1: i64 = 1;
  let x2: i64 = 2;
  let x3: i64 = 3;
  let x4: i64 = 4;
  let x5: i64 = 5;
  let x6: i64 = 6;
  let x7: i64 = 4294967297;
  println_i64(x7);
  println_i64((((((x1 + x2) + x3) + x4) + x5) + x6) + x7);
  0 }
