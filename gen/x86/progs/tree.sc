data Tree { Leaf(v: i64), Node(l: Tree, k: i64, r: Tree) }
def build(d: i64, k: i64): Tree { if d == 0 { Leaf(k) } else { Node(build(d - 1, 2 * k), k, build(d - 1, (2 * k) + 1)) } }
def tsum(t: Tree): i64 { t.case { Leaf(v) => v, Node(l, k, r) => (tsum(l) + k) + tsum(r) } }
def depthl(t: Tree): i64 { t.case { Leaf(v) => 0, Node(l, k, r) => 1 + depthl(l) } }
def main(d: i64): i64 {
  let t: Tree = build(d, 1);
  println_i64(tsum(t));
  println_i64(depthl(t));
  let u: Tree = Node(t, 7, t);
  println_i64(tsum(u));
  println_i64(depthl(build(d, 3)));
  0 }
