data T { K(f0: i64, f1: i64, f2: i64, f3: i64, f4: i64, f5: i64) }
def mk(a: i64): T { K(a + 0, a + 1, a + 2, a + 3, a + 4, a + 5) }
def use(t: T): i64 { t.case { K(g0, g1, g2, g3, g4, g5) => ((((((g0 * 1) + (g1 * 2)) + (g2 * 3)) + (g3 * 4)) + (g4 * 5)) + (g5 * 6)) } }
def main(a: i64): i64 {
  let y1: i64 = a * 1;
  let y2: i64 = a * 2;
  let y3: i64 = a * 3;
  let y4: i64 = a * 4;
  let y5: i64 = a * 5;
  let y6: i64 = a * 6;
  let y7: i64 = a * 7;
  let t: T = mk(a);
  let u: T = mk(a + 1);
  println_i64(use(t) + use(u));
  let v: T = mk(y3);
  println_i64(use(v) + ((((((y1 + y2) + y3) + y4) + y5) + y6) + y7));
  0 }
