#!/usr/bin/env python3
"""possim.py: Lean x86 machine on the implementation's S7x text vs the AxCut positional machine (SemPos) on S5,
plus parse/print round trip of the text.  usage: possim.py <index files...> | <file args...>"""
import sys, os, json, subprocess, hashlib, random, re
H = "/verif/harness/target/debug/scc-harness"; X = os.environ.get("X86M", "/verif/lean/.lake/build/bin/x86m")
W = os.environ.get("X86_WORK", "/tmp/x86_check"); os.makedirs(W, exist_ok=True)
def one(path, args):
    req = ("stages " if path.endswith(".sc") else "axcutlin " if path.endswith(".lin.sexp") else "axcut ") + path
    lines = subprocess.run([H], input=req + "\n", capture_output=True, text=True).stdout.splitlines()
    s5 = s7 = None
    for l in lines:
        if l.startswith("S5 OK "): s5 = l[6:]
        elif l.startswith("S7x OK "): s7 = json.loads(l[7:])
    if s5 is None or s7 is None: return "SKIP"
    t = os.path.join(W, hashlib.md5(path.encode()).hexdigest()[:10])
    open(t + ".s5", "w").write(s5); open(t + ".asm", "w").write(s7)
    rt = subprocess.run([X, "roundtrip", t + ".asm"], capture_output=True, text=True).stdout.strip()
    pos = subprocess.run([X, "pos", t + ".s5", "3000000"] + args, capture_output=True, text=True).stdout.strip()
    mach = subprocess.run([X, "run", t + ".asm", "100000000", "heap,wf,heapbytes=4194304"] + args, capture_output=True, text=True).stdout.strip()
    pm = re.match(r"OK (out=\S+ res=\S+)", pos); mm = re.match(r"OK (out=\S+ res=\S+)", mach)
    ok = pm and mm and pm.group(1) == mm.group(1)
    if not ok and pm and "stuck" in pm.group(1) and mm and "fault:div" in mm.group(1): ok = True
    return ("AGREE" if ok and rt == "ROUNDTRIP OK" else "DIFF") + f" {rt} | pos: {pos[:150]} | mach: {mach[:200]}"
rnd = random.Random(7)
res = {}
for a in sys.argv[1:]:
    if os.path.basename(a).startswith("index_"):
        d = os.path.dirname(a)
        for l in open(a):
            f, n, live = l.split()
            args = [str(rnd.randint(-20, 20)) for _ in range(int(n))]
            r = one(os.path.join(d, f), args)
            res[r.split()[0]] = res.get(r.split()[0], 0) + 1
            if not r.startswith("AGREE"): print(f, args, r)
print(res)
