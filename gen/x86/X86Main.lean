import Scc.X86.Machine
import Scc.X86.Backend
import Scc.AxCut.SemPos
open Scc.X86

/-- usage: x86m run <asmfile> <fuel> <mon> [args...]   |  x86m wf <asmfile> -/
def main (argv : List String) : IO Unit := do
  match argv with
  | "run" :: file :: fuel :: mon :: args =>
    let text ← IO.FS.readFile file
    IO.println (runLine text (" ".intercalate args) fuel.toNat! mon)
  | ["wf", file] =>
    let text ← IO.FS.readFile file
    match wfCheck text with
    | .ok () => IO.println "WF OK"
    | .error e => IO.println s!"WF-ERROR {e}"
  | ["codegen", file, hooks, start] =>
    let text ← IO.FS.readFile file
    IO.println (runLineCodegen text.trimAscii.toString (hooks == "1") start.toNat!)
  | ["roundtrip", file] =>
    -- parse the text and print it again: must reproduce the text (printer is the inverse of the parser)
    let text ← IO.FS.readFile file
    match parseText text with
    | .error (n, l) => IO.println s!"PARSE-ERROR line {n}: {l}"
    | .ok items =>
      let again := printProg (items.map (·.1))
      IO.println (if again == text || again ++ "\n" == text then "ROUNDTRIP OK" else "ROUNDTRIP DIFF")
  | "pos" :: file :: fuel :: args =>
    let text ← IO.FS.readFile file
    IO.println (Scc.AxCut.Pos.runLinePos text.trimAscii.toString (",".intercalate args) fuel.toNat!)
  | _ => IO.println "usage"
