#!/usr/bin/env python3
"""tie.py <files...>: model text vs harness S6x/S7x (after label canonicalisation)."""
import sys, os, json, subprocess, hashlib
sys.path.insert(0, "/verif/gen")
sys.path.insert(0, os.path.dirname(os.path.abspath(__file__)))
from fastcanon import canon as fcanon
EXACT = [0]
def canon(t):
    return t

H = "/verif/harness/target/debug/scc-harness"
X = os.environ.get("X86M", "/verif/lean/.lake/build/bin/x86m")
W = os.environ.get("X86_WORK", "/tmp/x86_check"); os.makedirs(W, exist_ok=True)
ok = bad = skip = 0
for path in sys.argv[1:]:
    if path.endswith(".sc"): req = "stages " + path
    elif path.endswith(".lin.sexp"): req = "axcutlin " + path
    else: req = "axcut " + path
    lines = subprocess.run([H], input=req + "\n", capture_output=True, text=True).stdout.splitlines()
    s5 = s6 = s7 = None; nargs = None; panic = None
    for l in lines:
        if l.startswith("S5 OK "): s5 = l[6:]
        elif l.startswith("S6x OK "):
            _, _, n, t = l.split(" ", 3); nargs = int(n); s6 = json.loads(t)
        elif l.startswith("S7x OK "): s7 = json.loads(l[7:])
        elif l.startswith("S6x PANIC") or l.startswith("S7x PANIC"): panic = (panic or "") + l + " "
    if s5 is None:
        skip += 1; continue
    f = os.path.join(W, hashlib.md5(path.encode()).hexdigest()[:10] + ".s5")
    open(f, "w").write(s5)
    out = subprocess.run([X, "codegen", f, "1", "0"], capture_output=True, text=True).stdout
    if out.endswith("\n"): out = out[:-1]
    if s6 is None:
        # harness panicked: model must panic too
        if out.startswith("PANIC"):
            ok += 1; print("AGREE-PANIC", path, "|", out[:80], "|", (panic or "")[:120])
        else:
            bad += 1; print("DIFF (harness panic, model not)", path, panic)
        continue
    if not out.startswith("OK "):
        bad += 1; print("DIFF model:", out[:200], path); continue
    head, rest = out.split("\n", 1)
    body, _, routine = rest.partition("\n---\n")
    mn = int(head.split()[1])
    good = True
    if mn != nargs: good = False; print("  nargs differ", mn, nargs)
    if body != s6: EXACT[0] += 1
    if body != s6 and fcanon(body) != fcanon(s6):
        good = False
        a = fcanon(body).split("\n"); b = fcanon(s6).split("\n")
        for i in range(max(len(a), len(b))):
            x = a[i] if i < len(a) else "<eof>"; y = b[i] if i < len(b) else "<eof>"
            if x != y:
                print("  S6x first diff at line", i, "\n   model:", x, "\n   impl :", y); break
    if s7 is None:
        if not routine.startswith("PANIC"): good = False; print("  S7x: harness panicked, model did not")
    elif routine != s7 and fcanon(routine) != fcanon(s7):
        good = False
        a = fcanon(routine).split("\n"); b = fcanon(s7).split("\n")
        for i in range(max(len(a), len(b))):
            x = a[i] if i < len(a) else "<eof>"; y = b[i] if i < len(b) else "<eof>"
            if x != y:
                print("  S7x first diff at line", i, "\n   model:", x, "\n   impl :", y); break
    if good: ok += 1
    else: bad += 1; print("DIFF", path)
print("not byte-exact before canonicalisation:", EXACT[0])
print(f"tie: {ok} agree, {bad} differ, {skip} skipped (no S5)")
