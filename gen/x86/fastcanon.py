import re
TOKEN = re.compile(r'[^\s,\[\]():]+')
def canon(text):
    lines = text.split('\n')
    bases = set()
    n = len(lines)
    for i, line in enumerate(lines):
        m = re.match(r'^([^\s:;#]+):$', line.strip())
        if not m: continue
        name = m.group(1)
        if re.fullmatch(r'lab\d+', name): bases.add(name); continue
        if re.fullmatch(r'.*_\d+', name):
            nxt = ''
            for j in range(i + 1, n):
                t = lines[j].strip()
                if t == '' or t.startswith(';'): continue
                nxt = t; break
            if (name + '_') in nxt: bases.add(name)
    # labels referenced by lea
    for line in lines:
        m = re.search(r'\[rel ([^\]\s]+)\]', line)
        if m and re.fullmatch(r'.*_\d+', m.group(1)): bases.add(m.group(1))
    order = {}
    cache = {}
    def rep(tok):
        if tok in cache: return cache[tok]
        base = None
        if tok in bases: base = tok
        else:
            idx = [k for k, ch in enumerate(tok) if ch == '_']
            for k in idx:
                if tok[:k] in bases: base = tok[:k]  # longest prefix wins (keep last)
        if base is None: r = tok
        else:
            if base not in order: order[base] = len(order) + 1
            k = order[base]
            if base.startswith('lab') and base[3:].isdigit(): nb = 'lab#%d' % k
            else: nb = base[:base.rindex('_')] + '_#%d' % k
            r = nb + tok[len(base):]
        cache[tok] = r
        return r
    out = []
    for line in lines:
        if line.lstrip().startswith(';'): out.append(line); continue
        out.append(TOKEN.sub(lambda m: rep(m.group(0)), line))
    return '\n'.join(out)
