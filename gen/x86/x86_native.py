#!/usr/bin/env python3
"""Native vs machine-model validation for x86-64.
usage: native.py <file.sc|file.sexp|file.asm> [args...]    (prints comparison line)
"""
import sys, os, re, json, subprocess, hashlib
H = "/verif/harness/target/debug/scc-harness"
X = os.environ.get("X86M", "/verif/lean/.lake/build/bin/x86m")
W = os.environ.get("X86_WORK", "/tmp/x86_check")
DRV = open("/repo/lang/driver/infrastructure/driver-template.c").read()

def harness(req):
    r = subprocess.run([H], input=req + "\n", capture_output=True, text=True)
    return r.stdout.splitlines()

def get_asm(path):
    """returns (nargs, routine text) or raises"""
    if path.endswith(".asm"):
        t = open(path).read()
        m = re.search(r"; nargs=(\d+)", t)
        return (int(m.group(1)) if m else 0), t
    if path.endswith(".sc"):
        lines = harness("stages " + path)
    elif path.endswith(".lin.sexp"):
        lines = harness("axcutlin " + path)
    else:
        lines = harness("axcut " + path)
    nargs = None; txt = None
    for l in lines:
        if l.startswith("S6x OK "):
            nargs = int(l.split(" ", 3)[2])
        if l.startswith("S7x OK "):
            txt = json.loads(l[len("S7x OK "):])
        if l.startswith("S6x PANIC") or l.startswith("S7x PANIC"):
            raise RuntimeError(l)
    if txt is None:
        raise RuntimeError("no S7x: " + " | ".join(x[:100] for x in lines))
    return nargs, txt

def to_gas(t):
    out = [".intel_syntax noprefix"]
    for l in t.split("\n"):
        s = l
        c = s.find(";")
        if c >= 0:
            s = s[:c]
        s = s.rstrip()
        if not s.strip():
            continue
        st = s.strip()
        if st.startswith("section .note.GNU-stack"):
            out.append('.section .note.GNU-stack,"",@progbits'); continue
        if st == "section .text":
            out.append(".text"); continue
        if st.startswith("extern "):
            continue
        if st.startswith("global "):
            out.append(".globl " + st[7:]); continue
        m = re.match(r"jmp near (\S+)$", st)
        if m:
            out.append("    .byte 0xe9"); out.append("    .long %s - . - 4" % m.group(1)); continue
        s = re.sub(r"\[rel (\S+)\]", r"[rip + \1]", s)
        s = s.replace("qword [", "qword ptr [")
        out.append(s)
    return "\n".join(out) + "\n"

def driver(n):
    proto = "asm_main(void *heap" + "".join(", int64_t input%d" % i for i in range(1, n+1)) + ")"
    call = "asm_main(heap" + "".join(", strtoll(argv[%d], NULL, 10)" % i for i in range(1, n+1)) + ")"
    return DRV.replace("asm_main(void *heap)", proto).replace("(argc != 1 + 0)", "(argc != 1 + %d)" % n).replace("asm_main(heap)", call)

def build(nargs, txt, tag):
    d = os.path.join(W, tag); os.makedirs(d, exist_ok=True)
    open(d + "/prog.asm", "w").write(txt)
    open(d + "/prog.s", "w").write(to_gas(txt))
    open(d + "/driver.c", "w").write(driver(nargs))
    r = subprocess.run(["gcc", "-O1", "-o", d + "/prog", d + "/prog.s", d + "/driver.c",
                        "/repo/lang/driver/infrastructure/io.c"], capture_output=True, text=True)
    if r.returncode != 0:
        return None, r.stderr
    return d + "/prog", ""

def expected_from_model(line):
    m = re.match(r"OK out=\[(.*?)\] res=(\S+) steps=(\d+)", line)
    if not m: return None
    outs = m.group(1); res = m.group(2)
    s = ""
    if outs:
        for it in outs.split(","):
            nl, v = it.split(":")
            s += v + ("\n" if nl == "1" else "")
    st = None
    if res.startswith("done:"):
        st = int(res[5:]) % 256
    return s, st, res

def main():
    path = sys.argv[1]; args = sys.argv[2:]
    tag = hashlib.md5(path.encode()).hexdigest()[:10]
    try:
        nargs, txt = get_asm(path)
    except Exception as e:
        print("SKIP", path, str(e)[:200]); return 2
    exe, err = build(nargs, txt, tag)
    asmf = os.path.join(W, tag, "prog.asm")
    model = subprocess.run([X, "run", asmf, "200000000", "wf,heap"] + args, capture_output=True, text=True).stdout.strip()
    if exe is None:
        print("ASFAIL", path, "model:", model[:200], "| as:", err.strip().split("\n")[0][:200]); return 1
    r = subprocess.run([exe] + args, capture_output=True, timeout=120)
    nat_out = r.stdout.decode(); nat_st = r.returncode
    exp = expected_from_model(model)
    ok = exp is not None and exp[0] == nat_out and exp[1] == nat_st
    print("AGREE" if ok else "DIFF", path, args, "native:", repr(nat_out[:80]), nat_st, "| model:", model[:300])
    return 0 if ok else 1

sys.exit(main())
