#!/usr/bin/env python3
"""mutate_typed.py — single, certainly ill-typed edits of well-typed Fun programs (property C15).

usage: mutate_typed.py CORPUS_DIR OUT_DIR [--harness PATH] [--only CLASS] [--limit N] [--doubles N]
(--doubles N: additionally N random PAIRS of edits per program, class name `a+b`; they exercise the
order in which the checker reports the first error)

For every CORPUS_DIR/p*.sc (programs the real checker accepts) the harness is asked for the parsed
tree (S0: declarations) and the checked tree (S1: definitions with type annotations).  Each mutant is
the checked tree with ONE edit, printed back to concrete syntax (annotations dropped, parentheses added
where the grammar needs them) as OUT_DIR/<prog>__<class>__<k>.sc.  `<prog>__orig__0.sc` is the
unmutated re-print (must still be accepted).  python3 stdlib only.

The 17 classes (each edit is ill-typed whatever the rest of the program looks like):
  argcount     drop / add one argument of a call, constructor or destructor
  argtype      replace an argument by a term of another type (constructor of a fresh data type
               `MutT`; a literal where a declared type is expected)
  unboundvar   rename one variable occurrence to a name bound nowhere
  unboundcov   rename one goto target / covariable argument to a name bound nowhere
  missing      delete one clause of a case/new that has >= 2 clauses
  extra        add a clause for an xtor that does not exist
  dupclause    duplicate one clause
  binders      add / remove one binder of a clause
  tyargs       add / remove one type argument (case, destructor, type annotation)
  prdascns     a term / producer variable where a covariable is expected (argument or goto target)
  cnsasprd     a covariable in scope used as a term
  dupdecl      duplicate a def / data / codata declaration, or an xtor inside/outside its type
  tparam       repeat a type parameter, or name it like a declared type
  newatdata    `new {..}` where a data type (or i64) is expected
  ctorati64    a constructor where i64 is expected
  emptymatch   remove all clauses of a case / of a new whose codata type has destructors
  foreignctor  a nullary constructor of ANOTHER data type (same number of type parameters) where a data type is expected
"""
import sys, os, subprocess, copy

HARNESS = '/verif/harness/target/debug/scc-harness'

# ---------------------------------------------------------------- s-expressions

def parse_sexp(s):
    i, n, stack = 0, len(s), [[]]
    while i < n:
        c = s[i]
        if c in ' \n\t\r':
            i += 1
        elif c == '(':
            stack.append([]); i += 1
        elif c == ')':
            l = stack.pop(); stack[-1].append(l); i += 1
        elif c == '"':
            j = i + 1
            while s[j] != '"':
                if s[j] == '\\': j += 1
                j += 1
            stack[-1].append(('s', s[i+1:j])); i = j + 1
        else:
            j = i
            while j < n and s[j] not in ' \n\t\r()': j += 1
            stack[-1].append(s[i:j]); i = j
    return stack[0][0]

def S(x):            # string payload
    assert isinstance(x, tuple), x
    return x[1]

# ---------------------------------------------------------------- printing to concrete syntax

def p_ty(t):
    if t == 'i64': return 'i64'
    assert t[0] == 'ty'
    args = t[2:]
    return S(t[1]) + ('[' + ', '.join(p_ty(a) for a in args) + ']' if args else '')

def p_binding(b):
    return S(b[1]) + (':cns ' if b[2] == 'cns' else ': ') + p_ty(b[3])

def p_ctx(c, always=False):
    bs = c[1:]
    if not bs and not always: return ''
    return '(' + ', '.join(p_binding(b) for b in bs) + ')'

T1 = ('lit', 'var', 'call', 'paren')
T2 = T1 + ('new', 'ctor', 'dtor', 'case')

def wrap(t, allowed):
    s = p_term(t)
    if t[0] in allowed and not (t[0] == 'lit' and int(t[1]) < 0 and allowed is T1):
        return s
    return '(' + s + ')'

def p_tyargs(ta):
    a = ta[1:]
    return '[' + ', '.join(p_ty(x) for x in a) + ']' if a else ''

def p_args(a, opt):
    xs = a[1:]
    if not xs and opt: return ''
    return '(' + ', '.join(p_term(x) for x in xs) + ')'

def p_clause(c):
    names = [S(x) for x in c[3][1:]]
    return S(c[2]) + ('(' + ', '.join(names) + ')' if names else '') + ' => ' + p_term(c[5])

def p_clauses(cs):
    return '{ ' + ', '.join(p_clause(c) for c in cs[1:]) + ' }'

OPS = {'eq': '==', 'ne': '!=', 'lt': '<', 'le': '<=', 'gt': '>', 'ge': '>='}

def p_term(t):
    k = t[0]
    if k == 'var': return S(t[1])
    if k == 'lit': return t[1]
    if k == 'op': return wrap(t[2], T1) + ' ' + t[1] + ' ' + wrap(t[3], T1)
    if k == 'ifc':
        fst = '(' + p_term(t[2]) + ')'
        if t[3] == 'none':
            cond = fst + ' ' + OPS[t[1]] + ' 0'
        else:
            cond = fst + ' ' + OPS[t[1]] + ' (' + p_term(t[3]) + ')'
        return 'if ' + cond + ' { ' + p_term(t[4]) + ' } else { ' + p_term(t[5]) + ' }'
    if k == 'print':
        return ('println_i64' if t[1] == 'nl' else 'print_i64') + '(' + p_term(t[2]) + '); ' + p_term(t[3])
    if k == 'let':
        b = p_term(t[3])
        if t[3][0] == 'print': b = '(' + b + ')'
        return 'let ' + S(t[1]) + ': ' + p_ty(t[2]) + ' = ' + b + '; ' + p_term(t[4])
    if k == 'call': return S(t[1]) + p_args(t[2], False)
    if k == 'ctor': return S(t[1]) + p_args(t[2], True)
    if k == 'dtor': return wrap(t[1], T2) + '.' + S(t[2]) + p_tyargs(t[3]) + p_args(t[4], True)
    if k == 'case': return wrap(t[1], T2) + '.case' + p_tyargs(t[2]) + ' ' + p_clauses(t[3])
    if k == 'new': return 'new ' + p_clauses(t[1])
    if k == 'label': return 'label ' + S(t[1]) + ' { ' + p_term(t[2]) + ' }'
    if k == 'goto': return 'goto ' + S(t[1]) + ' (' + p_term(t[2]) + ')'
    if k == 'exit': return 'exit ' + wrap(t[1], T2)
    if k == 'paren': return '(' + p_term(t[1]) + ')'
    raise ValueError(k)

def p_decl(d):
    k = d[0]
    if k == 'data':
        tp = [S(x) for x in d[2][1:]]
        cs = [S(c[1]) + p_ctx(c[2]) for c in d[3:]]
        return 'data ' + S(d[1]) + ('[' + ', '.join(tp) + ']' if tp else '') + ' { ' + ', '.join(cs) + ' }'
    if k == 'codata':
        tp = [S(x) for x in d[2][1:]]
        ds = [S(c[1]) + p_ctx(c[2]) + ': ' + p_ty(c[3]) for c in d[3:]]
        return 'codata ' + S(d[1]) + ('[' + ', '.join(tp) + ']' if tp else '') + ' { ' + ', '.join(ds) + ' }'
    if k == 'def':
        return 'def ' + S(d[1]) + p_ctx(d[2], True) + ': ' + p_ty(d[3]) + ' { ' + p_term(d[4]) + ' }'
    raise ValueError(k)

def p_prog(decls):
    return '\n'.join(p_decl(d) for d in decls) + '\n'

# ---------------------------------------------------------------- harness

class Harness:
    def __init__(self, path):
        self.p = subprocess.Popen([path], stdin=subprocess.PIPE, stdout=subprocess.PIPE,
                                  stderr=subprocess.DEVNULL, text=True, bufsize=1)
    def stages1(self, f):
        self.p.stdin.write('stages %s 1\n' % f); self.p.stdin.flush()
        s0 = s1 = None
        while True:
            l = self.p.stdout.readline()
            if not l: raise RuntimeError('harness died')
            l = l.rstrip('\n')
            if l == 'END': break
            if l.startswith('S0 '): s0 = l[3:]
            if l.startswith('S1 '): s1 = l[3:]
        return s0, s1

# ---------------------------------------------------------------- mutation sites

UNB = 'zzunbound'

def subterm_slots(t):
    """indices (paths of length 1 or 3) of the direct subterms of t: list of (container, index)"""
    k = t[0]
    out = []
    def slot(c, i): out.append((c, i))
    if k == 'op': slot(t, 2); slot(t, 3)
    elif k == 'ifc':
        slot(t, 2)
        if t[3] != 'none': slot(t, 3)
        slot(t, 4); slot(t, 5)
    elif k == 'print': slot(t, 2); slot(t, 3)
    elif k == 'let': slot(t, 3); slot(t, 4)
    elif k in ('call', 'ctor'):
        for i in range(1, len(t[2])): slot(t[2], i)
    elif k == 'dtor':
        slot(t, 1)
        for i in range(1, len(t[4])): slot(t[4], i)
    elif k == 'case':
        slot(t, 1)
        for c in t[3][1:]: slot(c, 5)
    elif k == 'new':
        for c in t[1][1:]: slot(c, 5)
    elif k in ('label', 'goto'): slot(t, 2)
    elif k in ('exit', 'paren'): slot(t, 1)
    return out

def ann_ty(t):
    """annotated type of a checked term (None if the node carries none)"""
    k = t[0]
    idx = {'var': 2, 'ifc': 6, 'print': 4, 'let': 5, 'call': 3, 'ctor': 3, 'dtor': 5, 'case': 4,
           'new': 2, 'label': 3, 'goto': 3, 'exit': 2}.get(k)
    if k in ('lit', 'op'): return 'i64'
    if k == 'paren': return ann_ty(t[1])
    if idx is None: return None
    return t[idx]

class Mutator:
    def __init__(self, decls0, defs1):
        self.decls0 = decls0          # S0 declarations (data/codata/def), source order
        self.defs1 = {S(d[1]): d for d in defs1}
        # program = S0 order, defs replaced by their checked versions
        self.prog = [self.defs1[S(d[1])] if d[0] == 'def' else d for d in decls0]
        self.sigs = {S(d[1]): d[2][1:] for d in self.prog if d[0] == 'def'}
        self.datas = {S(d[1]): d for d in decls0 if d[0] == 'data'}
        self.codatas = {S(d[1]): d for d in decls0 if d[0] == 'codata'}
        self.ctor_sig = {}
        self.dtor_sig = {}
        for d in self.datas.values():
            for c in d[3:]: self.ctor_sig[S(c[1])] = c[2][1:]
        for d in self.codatas.values():
            for c in d[3:]: self.dtor_sig[S(c[1])] = c[2][1:]
        self.out = []                 # (class, program text)
        self.edits = []               # registered single edits

    # -- helpers
    def emit(self, cls, prog, extra_decls=()):
        self.out.append((cls, p_prog(list(extra_decls) + prog)))

    def with_edit(self, cls, container, index, new, extra_decls=()):
        """register the edit `container[index] := new`"""
        self.edits.append((cls, container, index, new, tuple(extra_decls)))

    def with_list_edit(self, cls, container, newitems, extra_decls=()):
        """register the edit `container[:] := newitems`"""
        self.edits.append((cls, container, None, newitems, tuple(extra_decls)))

    @staticmethod
    def apply(edit):
        cls, container, index, new, extra = edit
        if index is None:
            old = container[:]
            container[:] = new
        else:
            if index >= len(container):      # an earlier edit of a pair shrank this list: no-op
                return Mutator.NOOP
            old = container[index]
            container[index] = new
        return old

    NOOP = object()

    @staticmethod
    def undo(edit, old):
        cls, container, index, new, extra = edit
        if old is Mutator.NOOP:
            return
        if index is None:
            container[:] = old
        else:
            container[index] = old

    def emit_edits(self, edits):
        olds = [self.apply(e) for e in edits]
        extra = []
        for e in edits:
            for d in e[4]:
                if d not in extra: extra.append(d)
        try:
            self.emit('+'.join(e[0] for e in edits), self.prog, extra)
        finally:
            for e, o in reversed(list(zip(edits, olds))):
                self.undo(e, o)

    MUT_DECL = ['data', ('s', 'MutT'), ['tparams'], ['ctor', ('s', 'MkMutT'), ['ctx']]]
    MUT_TERM = ['ctor', ('s', 'MkMutT'), ['args'], 'none']

    def params_of(self, t):
        """declared parameter bindings (templates for xtors) of a call/ctor/dtor node"""
        if t[0] == 'call': return self.sigs.get(S(t[1]))
        if t[0] == 'ctor': return self.ctor_sig.get(S(t[1]))
        if t[0] == 'dtor': return self.dtor_sig.get(S(t[2]))
        return None

    # -- walk every term of every def with its scope
    def walk(self):
        for d in self.prog:
            if d[0] != 'def': continue
            scope = [(S(b[1]), b[2]) for b in d[2][1:]]
            self.visit(d, 4, scope, d[3])

    def visit(self, container, index, scope, expected):
        t = container[index]
        k = t[0]
        self.site(container, index, t, scope, expected)
        if k == 'let':
            self.visit(t, 3, scope, t[2])
            self.visit(t, 4, scope + [(S(t[1]), 'prd')], expected)
        elif k == 'label':
            self.visit(t, 2, scope + [(S(t[1]), 'cns')], expected)
        elif k in ('case', 'new'):
            if k == 'case': self.visit(t, 1, scope, ann_ty(t[1]))
            for c in (t[3] if k == 'case' else t[1])[1:]:
                binds = [(S(b[1]), b[2]) for b in c[4][1:]]
                self.visit(c, 5, scope + binds, ann_ty(c[5]))
        elif k in ('call', 'ctor', 'dtor'):
            if k == 'dtor': self.visit(t, 1, scope, ann_ty(t[1]))
            args = t[2] if k != 'dtor' else t[4]
            for i in range(1, len(args)):
                self.visit(args, i, scope, ann_ty(args[i]))
        elif k == 'op':
            self.visit(t, 2, scope, 'i64'); self.visit(t, 3, scope, 'i64')
        elif k == 'ifc':
            self.visit(t, 2, scope, 'i64')
            if t[3] != 'none': self.visit(t, 3, scope, 'i64')
            self.visit(t, 4, scope, expected); self.visit(t, 5, scope, expected)
        elif k == 'print':
            self.visit(t, 2, scope, 'i64'); self.visit(t, 3, scope, expected)
        elif k == 'goto':
            self.visit(t, 2, scope, ann_ty(t[2]))
        elif k == 'exit':
            self.visit(t, 1, scope, 'i64')
        elif k == 'paren':
            self.visit(t, 1, scope, expected)

    @staticmethod
    def resolve(scope, name):
        for n, chi in reversed(scope):
            if n == name: return chi
        return None

    def site(self, container, index, t, scope, expected):
        k = t[0]
        is_cov_arg = (k == 'var' and t[3] == 'cns')
        # ---- argcount / argtype / prdascns on argument lists
        if k in ('call', 'ctor', 'dtor'):
            args = t[2] if k != 'dtor' else t[4]
            items = args[1:]
            params = self.params_of(t)
            for i in range(len(items)):
                self.with_list_edit('argcount', args, ['args'] + items[:i] + items[i+1:])
            self.with_list_edit('argcount', args, ['args'] + items + [['lit', '0']])
            if params is not None and len(params) == len(items):
                for i, b in enumerate(params):
                    if b[2] == 'cns':
                        self.with_edit('prdascns', args, i + 1, ['lit', '0'])
                        for n, chi in scope:
                            if chi == 'prd' and self.resolve(scope, n) == 'prd':
                                self.with_edit('prdascns', args, i + 1, ['var', ('s', n), 'none', 'none'])
                                break
                        self.with_edit('unboundcov', args, i + 1, ['var', ('s', UNB), 'none', 'none'])
                    else:
                        self.with_edit('argtype', args, i + 1, self.MUT_TERM, [self.MUT_DECL])
                        if k == 'call' and b[3] != 'i64':
                            self.with_edit('argtype', args, i + 1, ['lit', '7'])
                        if k == 'call' and b[3] == 'i64':
                            self.with_edit('argtype', args, i + 1,
                                           ['new', ['clauses', ['clause', 'codata', ('s', 'zzd'), ['names'], ['ctx'], ['lit', '0']]], 'none'])
        # ---- variables
        if k == 'var' and not is_cov_arg:
            self.with_edit('unboundvar', container, index, ['var', ('s', UNB), 'none', 'none'])
        if k == 'call':
            self.with_edit('unboundvar', t, 1, ('s', UNB))          # undefined function (T-002)
        if k == 'ctor':
            self.with_edit('unboundvar', t, 1, ('s', 'Zzunbound'))  # undefined constructor
        if k == 'dtor':
            self.with_edit('unboundvar', t, 2, ('s', UNB))          # undefined destructor (T-023)
        if k == 'goto':
            self.with_edit('unboundcov', t, 1, ('s', UNB))
            for n, chi in scope:
                if chi == 'prd' and self.resolve(scope, n) == 'prd':
                    self.with_edit('prdascns', t, 1, ('s', n))
                    break
        # ---- a covariable in scope used as a term (any term position except covariable arguments)
        if not is_cov_arg and k in ('var', 'lit', 'call', 'ctor'):
            for n, chi in reversed(scope):
                if chi == 'cns' and self.resolve(scope, n) == 'cns':
                    self.with_edit('cnsasprd', container, index, ['var', ('s', n), 'none', 'none'])
                    break
        # ---- clauses
        if k in ('case', 'new'):
            cl = t[3] if k == 'case' else t[1]
            cs = cl[1:]
            pol = 'data' if k == 'case' else 'codata'
            if len(cs) >= 2:
                for i in range(len(cs)):
                    self.with_list_edit('missing', cl, ['clauses'] + cs[:i] + cs[i+1:])
            if len(cs) >= 1:
                fresh = 'Zzextra' if k == 'case' else 'zzextra'
                extra = ['clause', pol, ('s', fresh), ['names'], ['ctx'], copy.deepcopy(cs[-1][5])]
                # the body of the last clause may mention its binders; use a closed body instead
                extra[5] = self.closed_body(ann_ty(cs[-1][5]), scope)
                if extra[5] is not None:
                    self.with_list_edit('extra', cl, ['clauses'] + cs + [extra])
                for i in range(len(cs)):
                    self.with_list_edit('dupclause', cl, ['clauses'] + cs + [cs[i]])
                    self.with_list_edit('dupclause', cl, ['clauses'] + cs[:i+1] + [cs[i]] + cs[i+1:])
                for c in cs:
                    names = c[3][1:]
                    self.with_list_edit('binders', c[3], ['names'] + names + [('s', 'zzb')])
                    if names:
                        self.with_list_edit('binders', c[3], ['names'] + names[:-1])
                        self.with_list_edit('binders', c[3], ['names'] + names[1:])
                # empty match: for `new` only if the codata type has destructors (it has: cs != [])
                self.with_list_edit('emptymatch', cl, ['clauses'])
        # ---- type arguments
        if k in ('case', 'dtor'):
            ta = t[2] if k == 'case' else t[3]
            items = ta[1:]
            self.with_list_edit('tyargs', ta, ['tyargs'] + items + ['i64'])
            if items:
                self.with_list_edit('tyargs', ta, ['tyargs'] + items[:-1])
        if k == 'let' and t[2] != 'i64':
            ty = t[2]
            self.with_list_edit('tyargs', ty, ty[:] + ['i64'])
            if len(ty) > 2: self.with_list_edit('tyargs', ty, ty[:-1])
        # ---- new at data / i64 ; constructor at i64
        if expected is not None and k != "paren" and not is_cov_arg:
            new_t = ['new', ['clauses', ['clause', 'codata', ('s', 'zzd'), ['names'], ['ctx'], ['lit', '0']]], 'none']
            if expected == 'i64':
                if k in ('lit', 'var', 'call'):
                    self.with_edit('newatdata', container, index, new_t)
                    self.with_edit('ctorati64', container, index, self.MUT_TERM, [self.MUT_DECL])
                    some_ctor = next(iter(self.ctor_sig), None)
                    if some_ctor is not None and not self.ctor_sig[some_ctor]:
                        self.with_edit('ctorati64', container, index, ['ctor', ('s', some_ctor), ['args'], 'none'])
            elif expected[0] == 'ty' and S(expected[1]) in self.datas:
                if k in ('ctor', 'var', 'call'):
                    self.with_edit('newatdata', container, index, new_t)
                    # a NULLARY constructor of ANOTHER declared data type with the same number of type
                    # parameters (its instance at the same type arguments may well exist in the program):
                    # certainly ill-typed, since the owning types differ
                    tname = S(expected[1])
                    for un, ud in self.datas.items():
                        if un == tname or len(ud[2][1:]) != len(self.datas[tname][2][1:]):
                            continue
                        for c in ud[3:]:
                            if not c[2][1:]:
                                self.with_edit('foreignctor', container, index, ['ctor', c[1], ['args'], 'none'])
                                break

    def closed_body(self, ty, scope):
        if ty == 'i64': return ['lit', '0']
        return ['exit', ['lit', '0'], 'none']

    # -- declaration-level mutations
    def decl_mutations(self):
        prog = self.prog
        n = len(prog)
        for i, d in enumerate(prog):
            # duplicate the declaration (directly after, and at the end)
            self.with_list_edit('dupdecl', prog, prog[:i+1] + [d] + prog[i+1:])
            if i != n - 1:
                self.with_list_edit('dupdecl', prog, prog + [d])
            if d[0] in ('data', 'codata'):
                xs = d[3:]
                for j, x in enumerate(xs):
                    # the xtor twice in its own type
                    self.with_list_edit('dupdecl', d, d[:] + [x])
                    # the xtor again in a new type of the same polarity
                    other = [d[0], ('s', 'MutOther'), ['tparams'],
                             ([x[0], x[1], ['ctx']] if d[0] == 'data' else [x[0], x[1], ['ctx'], 'i64'])]
                    self.with_list_edit('dupdecl', prog, prog + [other])
                tp = d[2][1:]
                # repeated type parameter
                if tp:
                    self.with_list_edit('tparam', d[2], ['tparams'] + tp + [tp[0]])
                    self.with_list_edit('tparam', d[2], ['tparams', tp[0]] + tp)
                else:
                    self.with_list_edit('tparam', d[2], ['tparams', ('s', 'Zp'), ('s', 'Zp')])
                # a type parameter named like a declared type
                for tn in list(self.datas) + list(self.codatas):
                    self.with_list_edit('tparam', d[2], ['tparams'] + tp + [('s', tn)])
                    break
            if d[0] == 'def':
                ctx = d[2]
                for j in range(1, len(ctx)):
                    # the same parameter twice (T-018 / T-019)
                    self.with_list_edit('dupdecl', ctx, ctx[:] + [ctx[j]])
                for j in range(1, len(ctx)):
                    b = ctx[j]
                    if b[3] != 'i64':
                        ty = b[3]
                        self.with_list_edit('tyargs', ty, ty[:] + ['i64'])
                        if len(ty) > 2: self.with_list_edit('tyargs', ty, ty[:-1])
                if d[3] != 'i64':
                    ty = d[3]
                    self.with_list_edit('tyargs', ty, ty[:] + ['i64'])
                    if len(ty) > 2: self.with_list_edit('tyargs', ty, ty[:-1])

    def run(self, doubles=0, seed=0):
        self.emit('orig', self.prog)
        self.walk()
        self.decl_mutations()
        for e in self.edits:
            self.emit_edits([e])
        if doubles:
            import random
            rnd = random.Random(seed)
            for _ in range(doubles):
                e1, e2 = rnd.sample(self.edits, 2)
                self.emit_edits([e1, e2])
        # dedupe (keep first) and drop mutants identical to the original
        seen, res = set(), []
        orig = self.out[0][1]
        for cls, text in self.out:
            if (cls != 'orig' and text == orig) or text in seen: continue
            seen.add(text); res.append((cls, text))
        return res

def main():
    args = sys.argv[1:]
    harness, only, limit, doubles = HARNESS, None, None, 0
    pos = []
    while args:
        a = args.pop(0)
        if a == '--harness': harness = args.pop(0)
        elif a == '--only': only = args.pop(0)
        elif a == '--limit': limit = int(args.pop(0))
        elif a == '--doubles': doubles = int(args.pop(0))
        else: pos.append(a)
    corpus, outdir = pos
    os.makedirs(outdir, exist_ok=True)
    h = Harness(harness)
    total = {}
    for f in sorted(os.listdir(corpus)):
        if not (f.startswith('p') and f.endswith('.sc')): continue
        s0, s1 = h.stages1(os.path.join(corpus, f))
        if not (s0 and s0.startswith('OK ') and s1 and s1.startswith('OK ')):
            print('skip (not accepted):', f, file=sys.stderr); continue
        decls0 = parse_sexp(s0[3:])[1:]
        defs1 = parse_sexp(s1[3:])[3][1:]
        muts = Mutator(decls0, defs1).run(doubles, seed=len(f))
        base = f[:-3]
        count = {}
        for cls, text in muts:
            if only and cls not in (only, 'orig'): continue
            k = count.get(cls, 0)
            if limit is not None and k >= limit: continue
            count[cls] = k + 1
            open(os.path.join(outdir, '%s__%s__%d.sc' % (base, cls, k)), 'w').write(text)
            total[cls] = total.get(cls, 0) + 1
    print('mutants written:', sum(total.values()), dict(sorted(total.items())))

if __name__ == '__main__':
    main()
