#!/usr/bin/env python3
"""gen_lin.py <seed> <n> <outdir>

Generator of LINEAR, well-typed AxCut programs in the S-expression dump format `(axprog …)`
(what `linearize` would produce: contexts are positional, every statement finds its operands where
the code generator expects them).  Writes <outdir>/lin_<seed>_<k>.s5 for k < n.

Shape of the programs: a fixed family of (non-recursive) data and codata types, defs f0..fm where a
`call` goes only to defs with a larger index or to a counting loop template (so most programs
terminate quickly), arbitrary nesting of lit/op/print/ifc/let/switch/create/invoke/subst, contexts up
to ~10 variables, substitutions that drop, duplicate and permute variables.
"""
import random
import sys
import os

I64 = ('i64',)


def ty(name):
    return ('ty', name)


# type table: name -> list of (xtor, [(argname, chi, type)])
TYPES = {
    'List[i64]': [('Nil', []), ('Cons', [('x', 'ext', I64), ('xs', 'prd', ty('List[i64]'))])],
    'Pair[i64, i64]': [('Tup', [('a', 'ext', I64), ('b', 'ext', I64)])],
    'Opt': [('None', []), ('Some', [('v', 'ext', I64)]), ('Both', [('l', 'prd', ty('List[i64]')), ('p', 'prd', ty('Pair[i64, i64]'))])],
    'Big_7': [('B0', [('a', 'ext', I64), ('b', 'ext', I64), ('c', 'ext', I64), ('d', 'ext', I64), ('e', 'prd', ty('List[i64]'))]),
              ('B1', []), ('B2', [('o', 'prd', ty('Opt'))]), ('B3', [('k', 'cns', ty('_Cont'))])],
    '_Cont': [('Ret', [('x', 'ext', I64)])],
    'Fun[i64, i64]': [('apply', [('x', 'ext', I64), ('a0', 'cns', ty('_Cont'))])],
    'Obj': [('get', [('a0', 'cns', ty('_Cont'))]), ('add', [('n', 'ext', I64), ('a0', 'cns', ty('_Cont'))]),
            ('fold', [('l', 'prd', ty('List[i64]')), ('a0', 'cns', ty('_Cont'))])],
    'LCont': [('RetL', [('l', 'prd', ty('List[i64]'))])],
}
DATA = ['List[i64]', 'Pair[i64, i64]', 'Opt', 'Big_7']
CODATA = ['_Cont', 'Fun[i64, i64]', 'Obj', 'LCont']


class G:
    def __init__(self, seed):
        self.r = random.Random(seed)
        self.next_id = 0
        self.prot = []    # variables that substitutions generated meanwhile must keep
        self.budget = 400 # statements still allowed (keeps the random recursion finite)

    def fresh(self, base='v'):
        self.next_id += 1
        return (base, self.next_id)

    # ---- s-expression helpers
    @staticmethod
    def sid(v):
        return '(id "%s" %d)' % (v[0], v[1])

    @staticmethod
    def sty(t):
        return 'i64' if t == I64 else '(ty (id "%s" 0))' % t[1]

    def sb(self, b):
        return '(b %s %s %s)' % (self.sid(b[0]), b[1], self.sty(b[2]))

    def sctx(self, c):
        return '(ctx' + ''.join(' ' + self.sb(b) for b in c) + ')'

    # ---- building blocks: each returns a statement string; ctx = list of (var, chi, ty)
    def subst_to(self, ctx, wanted, cont):
        """emit subst making the context exactly `wanted` = list of old bindings (repeats allowed);
        cont receives the new context"""
        seen = set()
        pairs = []
        newctx = []
        for b in wanted:
            if b[0] in seen:
                nv = self.fresh(b[0][0])
            else:
                nv = b[0]
                seen.add(b[0])
            nb = (nv, b[1], b[2])
            newctx.append(nb)
            pairs.append('(pair %s %s)' % (self.sb(nb), self.sid(b[0])))
        if [b[0] for b in wanted] == [b[0] for b in ctx] and self.r.random() < 0.8:
            return cont(ctx)
        return '(subst (pairs%s) %s)' % (''.join(' ' + p for p in pairs), cont(newctx))

    def exts(self, ctx):
        return [b for b in ctx if b[1] == 'ext']

    def lit_val(self):
        r = self.r
        c = r.random()
        if c < 0.5:
            return r.randint(-5, 20)
        if c < 0.8:
            return r.choice([0, 1, -1, 2, 7, 100, -100, 255, 65535, 65536, 2**31 - 1, -2**31, 2**31, 2**32 + 5])
        return r.choice([2**63 - 1, -2**63, 2**62, -2**40 + 3, 0x0000FFFF0000FFFF, 0x7FFF0000FFFF0000])

    def with_ext(self, ctx, k):
        """k: ctx, var -> stmt.  ensure an ext variable exists (maybe fresh literal)"""
        es = self.exts(ctx)
        if es and self.r.random() < 0.8:
            return k(ctx, self.r.choice(es))
        v = self.fresh('x')
        nb = (v, 'ext', I64)
        return '(lit %s %d %s none)' % (self.sid(v), self.lit_val(), k(ctx + [nb], nb))

    def make_value(self, ctx, t, depth, k):
        """build (or pick) a variable of non-ext type t with chirality chi; k: ctx, binding -> stmt"""
        cands = [b for b in ctx if b[2] == t and b[1] != 'ext']
        if cands and self.r.random() < 0.6:
            return k(ctx, self.r.choice(cands))
        name = t[1]
        if name in DATA:
            return self.gen_let(ctx, name, depth, k)
        return self.gen_create(ctx, name, depth, k)

    def gather(self, ctx, sig, depth, k):
        """obtain variables for the xtor signature sig; k: ctx, [bindings] -> stmt"""
        def go(ctx, i, acc):
            if i == len(sig):
                for _ in acc:
                    self.prot.pop()
                return k(ctx, acc)
            (_, chi, t) = sig[i]

            def nxt(c, b):
                self.prot.append(b[0])
                return go(c, i + 1, acc + [b])
            if chi == 'ext':
                return self.with_ext(ctx, nxt)
            return self.make_value(ctx, t, depth - 1, nxt)
        return go(ctx, 0, [])

    def keep_some(self, ctx, used):
        """choose which other variables survive a substitution (drop / keep / duplicate / permute)"""
        r = self.r
        rest = []
        for b in ctx:
            c = r.random()
            if b[0] in self.prot:
                rest.append(b)
                continue
            if any(b[0] == u[0] for u in used):
                # an argument: sometimes also keep a copy
                if c < 0.25:
                    rest.append(b)
                continue
            if c < 0.6:
                rest.append(b)
            elif c < 0.7:
                rest.append(b)
                rest.append(b)
            # else dropped
        if r.random() < 0.4:
            r.shuffle(rest)
        return [b for (i, b) in enumerate(rest) if i < 10 or b[0] in self.prot]

    def gen_let(self, ctx, tname, depth, k):
        xtors = TYPES[tname]
        if depth <= 0:
            # prefer constructors without non-ext arguments
            simple = [x for x in xtors if all(a[1] == 'ext' for a in x[1])]
            xt = self.r.choice(simple or xtors)
        else:
            xt = self.r.choice(xtors)

        def build(ctx, args):
            rest = self.keep_some(ctx, args)

            def after(c2):
                v = self.fresh('d')
                head = c2[:len(c2) - len(args)]
                argb = c2[len(c2) - len(args):]
                nb = (v, 'prd', ty(tname))
                return '(let %s %s (id "%s" 0) %s %s none)' % (
                    self.sid(v), self.sty(ty(tname)), xt[0], self.sctx(argb), k(head + [nb], nb))
            return self.subst_to(ctx, rest + args, after)
        return self.gather(ctx, xt[1], depth, build)

    def gen_create(self, ctx, tname, depth, k):
        xtors = TYPES[tname]
        # closure environment: a few variables of the context
        envsrc = [b for b in ctx if self.r.random() < 0.35][:4]
        rest = self.keep_some(ctx, envsrc)

        def after(c2):
            v = self.fresh('k')
            head = c2[:len(c2) - len(envsrc)]
            env = c2[len(c2) - len(envsrc):]
            clauses = []
            for (xn, sig) in xtors:
                cctx = [(self.fresh(a[0]), a[1], a[2]) for a in sig]
                body = self.gen_stmt(cctx + env, depth - 1, in_closure=True)
                clauses.append('(clause (id "%s" 0) %s %s)' % (xn, self.sctx(cctx), body))
            nb = (v, 'cns', ty(tname))
            return '(create %s %s %s (clauses%s) %s none none)' % (
                self.sid(v), self.sty(ty(tname)), self.sctx(env), ''.join(' ' + c for c in clauses),
                k(head + [nb], nb))
        return self.subst_to(ctx, rest + envsrc, after)

    def gen_exit(self, ctx):
        return self.with_ext(ctx, lambda c, b: '(exit %s)' % self.sid(b[0]))

    def gen_invoke(self, ctx, b, depth):
        tname = b[2][1]
        xt = self.r.choice(TYPES[tname])

        def build(ctx2, args):
            self.prot.pop()

            def after(c3):
                vb = c3[-1]
                shown = c3[:-1] if self.r.random() < 0.5 else []
                return '(invoke %s (id "%s" 0) %s %s)' % (self.sid(vb[0]), xt[0], self.sty(b[2]), self.sctx(shown))
            return self.subst_to(ctx2, args + [b], after)
        self.prot.append(b[0])
        return self.gather(ctx, xt[1], depth, build)

    def gen_switch(self, ctx, b, depth):
        tname = b[2][1]
        rest = self.keep_some(ctx, [b])

        def after(c2):
            vb = c2[-1]
            head = c2[:-1]
            clauses = []
            for (xn, sig) in TYPES[tname]:
                cctx = [(self.fresh(a[0]), a[1], a[2]) for a in sig]
                body = self.gen_stmt(head + cctx, depth - 1)
                clauses.append('(clause (id "%s" 0) %s %s)' % (xn, self.sctx(cctx), body))
            return '(switch %s %s (clauses%s) none)' % (self.sid(vb[0]), self.sty(b[2]), ''.join(' ' + c for c in clauses))
        return self.subst_to(ctx, rest + [b], after)

    def gen_call(self, ctx, depth):
        cands = self.defs_later
        if not cands:
            return self.gen_exit(ctx)
        (name, sig) = self.r.choice(cands)
        if name == 'loop':
            n = self.fresh('n')
            a = self.fresh('acc')
            return '(lit %s %d (lit %s %d (subst (pairs (pair %s %s) (pair %s %s)) (call (id "loop" 0) (ctx))) none) none)' % (
                self.sid(n), self.r.randint(0, 12), self.sid(a), self.r.randint(-3, 3),
                self.sb((n, 'ext', I64)), self.sid(n), self.sb((a, 'ext', I64)), self.sid(a))

        def build(ctx2, args):
            def after(c3):
                shown = c3 if self.r.random() < 0.5 else []
                return '(call (id "%s" 0) %s)' % (name, self.sctx(shown))
            return self.subst_to(ctx2, args, after)
        return self.gather(ctx, [(b[0][0], b[1], b[2]) for b in sig], depth, build)

    def gen_stmt(self, ctx, depth, in_closure=False):
        r = self.r
        self.budget -= 1
        if self.budget <= 0:
            return self.gen_exit(ctx)
        if len(ctx) > 9:
            keep = self.keep_some(ctx, [])[:6]
            return self.subst_to(ctx, keep, lambda c: self.gen_stmt(c, depth, in_closure))
        if depth <= 0:
            # terminal
            c = r.random()
            cns = [b for b in ctx if b[1] == 'cns']
            if cns and c < 0.6:
                return self.gen_invoke(ctx, r.choice(cns), 0)
            if c < 0.75:
                return self.gen_call(ctx, 0)
            return self.gen_exit(ctx)
        c = r.random()
        es = self.exts(ctx)
        if c < 0.12:
            v = self.fresh('x')
            return '(lit %s %d %s none)' % (self.sid(v), self.lit_val(), self.gen_stmt(ctx + [(v, 'ext', I64)], depth - 1, in_closure))
        if c < 0.27:
            def k1(c1, a):
                def k2(c2, b):
                    v = self.fresh('o')
                    ops = ['+', '-', '*', '+', '-', '*', '/', '%']
                    o = r.choice(ops)
                    return '(op %s %s %s %s %s none)' % (self.sid(v), self.sid(a[0]), o, self.sid(b[0]),
                                                          self.gen_stmt(c2 + [(v, 'ext', I64)], depth - 1, in_closure))
                return self.with_ext(c1, k2)
            return self.with_ext(ctx, k1)
        if c < 0.35:
            return self.with_ext(ctx, lambda c1, a: '(print %s %s %s none)' % (
                r.choice(['nl', 'nonl']), self.sid(a[0]), self.gen_stmt(c1, depth - 1, in_closure)))
        if c < 0.47:
            def k1(c1, a):
                srt = r.choice(['eq', 'ne', 'lt', 'le', 'gt', 'ge'])
                if r.random() < 0.5:
                    return '(ifc %s %s none %s %s)' % (srt, self.sid(a[0]), self.gen_stmt(c1, depth - 1, in_closure),
                                                      self.gen_stmt(c1, depth - 1, in_closure))
                return self.with_ext(c1, lambda c2, b: '(ifc %s %s %s %s %s)' % (
                    srt, self.sid(a[0]), self.sid(b[0]), self.gen_stmt(c2, depth - 1, in_closure),
                    self.gen_stmt(c2, depth - 1, in_closure)))
            return self.with_ext(ctx, k1)
        if c < 0.60:
            return self.gen_let(ctx, r.choice(DATA), depth, lambda c1, b: self.gen_stmt(c1, depth - 1, in_closure))
        if c < 0.70:
            return self.gen_create(ctx, r.choice(CODATA), depth, lambda c1, b: self.gen_stmt(c1, depth - 1, in_closure))
        if c < 0.80:
            ds = [b for b in ctx if b[1] == 'prd' and b[2] != I64 and b[2][1] in DATA]
            if ds:
                return self.gen_switch(ctx, r.choice(ds), depth)
            return self.gen_let(ctx, r.choice(DATA), depth, lambda c1, b: self.gen_switch(c1, b, depth))
        if c < 0.88:
            # a pure rearrangement
            keep = self.keep_some(ctx, [])
            return self.subst_to(ctx, keep, lambda c1: self.gen_stmt(c1, depth - 1, in_closure))
        if c < 0.93:
            cns = [b for b in ctx if b[1] == 'cns']
            if cns:
                return self.gen_invoke(ctx, r.choice(cns), depth)
            return self.gen_create(ctx, r.choice(CODATA), depth, lambda c1, b: self.gen_invoke(c1, b, depth))
        if c < 0.97:
            return self.gen_call(ctx, depth)
        return self.gen_exit(ctx)

    def gen_prog(self):
        r = self.r
        ndefs = r.randint(1, 4)
        sigs = []
        for i in range(ndefs):
            if i == 0:
                params = [(self.fresh('arg'), 'ext', I64) for _ in range(r.randint(0, 3))]
            else:
                params = []
                for _ in range(r.randint(0, 4)):
                    c = r.random()
                    if c < 0.5:
                        params.append((self.fresh('p'), 'ext', I64))
                    elif c < 0.8:
                        params.append((self.fresh('q'), 'prd', ty(r.choice(DATA))))
                    else:
                        params.append((self.fresh('c'), 'cns', ty(r.choice(CODATA))))
            name = 'main' if i == 0 else 'f%d' % i
            sigs.append((name, params))
        # the loop template: loop(n, acc) counts n down, summing
        loopn = (self.fresh('n'), 'ext', I64)
        loopa = (self.fresh('acc'), 'ext', I64)
        sigs.append(('loop', [loopn, loopa]))
        defs = []
        depth = r.randint(2, 6)
        for i, (name, params) in enumerate(sigs[:-1]):
            self.defs_later = sigs[i + 1:]
            body = self.gen_stmt(list(params), depth)
            defs.append('(def (id "%s" 0) %s %s)' % (name, self.sctx(params), body))
        # loop body
        self.defs_later = []
        one = self.fresh('one')
        n2 = self.fresh('n')
        a2 = self.fresh('acc')
        n3 = (n2, 'ext', I64)
        a3 = (a2, 'ext', I64)
        loopbody = ('(ifc le %s none (print nl %s (exit %s) none) (lit %s 1 (op %s %s - %s (op %s %s + %s '
                    '(subst (pairs (pair %s %s) (pair %s %s)) (call (id "loop" 0) (ctx))) none) none) none))') % (
            self.sid(loopn[0]), self.sid(loopa[0]), self.sid(loopa[0]),
            self.sid(one), self.sid(n2), self.sid(loopn[0]), self.sid(one),
            self.sid(a2), self.sid(loopa[0]), self.sid(loopn[0]),
            self.sb(n3), self.sid(n2), self.sb(a3), self.sid(a2))
        defs.append('(def (id "loop" 0) %s %s)' % (self.sctx([loopn, loopa]), loopbody))
        types = []
        for tn, xs in TYPES.items():
            types.append('(type (id "%s" 0)%s)' % (tn, ''.join(
                ' (xtor (id "%s" 0) %s)' % (xn, self.sctx([((a[0], 0), a[1], a[2]) for a in sig])) for (xn, sig) in xs)))
        return '(axprog %d (types %s) (defs %s))' % (self.next_id, ' '.join(types), ' '.join(defs))


def main():
    seed = int(sys.argv[1])
    n = int(sys.argv[2])
    out = sys.argv[3]
    os.makedirs(out, exist_ok=True)
    for k in range(n):
        g = G(seed * 100003 + k)
        sys.setrecursionlimit(10000)
        p = g.gen_prog()
        with open(os.path.join(out, 'lin_%d_%d.s5' % (seed, k)), 'w') as f:
            f.write(p + '\n')


if __name__ == '__main__':
    main()
