import Scc.Fun2Core.Model
import Scc.Fun2Core.Hygiene
import Scc.Fun2Core.HygieneProofs
import Scc.Fun2Core.Size
open Scc Scc.Fun2Core

def sizeLine (s1 s2 : String) : String :=
  match Sexp.parse s1, Sexp.parse s2 with
  | some x1, some x2 =>
    match Fun.readChecked (s1.length + 10) x1, Core.readProg (s2.length + 10) x2 with
    | some p, some q =>
      let n := funProgSize p
      let m := progSize q
      let v := (q.defs.map (·.ctx.length)).foldl max 0
      let mm := match compileProg p with | .ok q' => progSize q' | .error _ => 0
      s!"n={n} S2={m} model={mm} maxArity={v} condBound={3*n*(v+4)} fullBound={3*n*(2*n+4)} ok={decide (m ≤ 3*n*(v+4)) && decide (v ≤ 2*n) && m == mm}"
    | _, _ => "ERR read"
  | _, _ => "ERR sexp"

def main (args : List String) : IO Unit := do
  match args with
  | "hyg" :: files =>
    for f in files do
      let text ← IO.FS.readFile f
      let na := match Sexp.parse text with
        | some sx => match Fun.readChecked (text.length + 10) sx with
          | some p => toString (namesAgreeProg p)
          | none => "?"
        | none => "?"
      IO.println (f ++ " " ++ Fun2Core.hygLine text ++ " namesAgree=" ++ na)
  | ["size", f1, f2] =>
    IO.println (sizeLine (← IO.FS.readFile f1) (← IO.FS.readFile f2))
  | files =>
    for f in files do
      let text ← IO.FS.readFile f
      IO.println (Fun2Core.runLine text)
