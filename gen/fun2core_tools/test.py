#!/usr/bin/env python3
import subprocess, sys, glob, os, re
H='/verif/harness/target/debug/scc-harness'
F2C='/tmp/agent_m1/lean/.lake/build/bin/f2c'
files=sys.argv[1:]
if not files:
    files=sorted(glob.glob('/repo/examples/*/*.sc')+glob.glob('/repo/testsuite/**/*.sc',recursive=True)+glob.glob('/repo/benchmarks/**/*.sc',recursive=True))
os.makedirs('/tmp/agent_m1/dumps',exist_ok=True)
# minimal sexp parser for sorting datas/codatas
def parse(s):
    i=0
    def p():
        nonlocal i
        while s[i].isspace(): i+=1
        if s[i]=='(':
            i+=1; items=[]
            while True:
                while s[i].isspace(): i+=1
                if s[i]==')': i+=1; return items
                items.append(p())
        if s[i]=='"':
            j=i+1
            while s[j]!='"':
                if s[j]=='\\': j+=1
                j+=1
            r=s[i:j+1]; i=j+1; return r
        j=i
        while not s[j].isspace() and s[j] not in '()': j+=1
        r=s[i:j]; i=j; return r
    return p()
def render(x):
    return x if isinstance(x,str) else '('+' '.join(render(y) for y in x)+')'
def norm(s):
    t=parse(s)
    # (prog n (datas ..) (codatas ..) (defs ..))
    for k in (2,3):
        t[k]=[t[k][0]]+sorted(t[k][1:],key=render)
    return render(t)
ok=0;bad=0
for n,f in enumerate(files):
    out=subprocess.run([H],input=f'stages {f} 2\n',capture_output=True,text=True).stdout
    s1=s2=None
    for line in out.splitlines():
        if line.startswith('S1 '): s1=line[3:]
        if line.startswith('S2 '): s2=line[3:]
    if s1 is None or not s1.startswith('OK '):
        print('NOS1',f,s1[:200] if s1 else out[:300]); bad+=1; continue
    df=f'/tmp/agent_m1/dumps/{n}.s1'
    open(df,'w').write(s1[3:])
    m=subprocess.run([F2C,df],capture_output=True,text=True).stdout.strip()
    if s2.startswith('OK ') and m.startswith('OK '):
        if norm(s2[3:])==norm(m[3:]): ok+=1
        else:
            bad+=1; print('DIFF',f)
            open(f'/tmp/agent_m1/dumps/{n}.exp','w').write(norm(s2[3:])); open(f'/tmp/agent_m1/dumps/{n}.got','w').write(norm(m[3:]))
    elif s2.startswith('PANIC') and m.startswith('PANIC'):
        ok+=1; print('BOTH-PANIC',f,s2[:100],'|',m[:100])
    else:
        bad+=1; print('MISMATCH',f,s2[:150],'|',m[:150])
print(f'ok={ok} bad={bad} of {len(files)}')
