#!/usr/bin/env python3
# scalable families (depth k): sequenced ifs, nested ifs, sequenced matches, nested matches, lets over matches
import subprocess, os, sys
H='/verif/harness/target/debug/scc-harness'
F2C='/tmp/agent_m1/lean/.lake/build/bin/f2c'
os.makedirs('/tmp/agent_m1/fam',exist_ok=True)
D="data Tri { A, B, C }\n"
def seq_if(k):
    b=''.join(f"let x{i+1}: i64 = if x{i} == {i} {{ x{i} + 1 }} else {{ x{i} * 2 }}; " for i in range(k))
    return f"def f(x0: i64): i64 {{ {b} x{k} }}\ndef main(): i64 {{ f(1) }}\n"
def nest_if(k):
    def g(i): return "x" if i==0 else f"if x == {i} {{ {g(i-1)} }} else {{ x + {i} }}"
    return f"def f(x: i64): i64 {{ let y: i64 = {g(k)}; y + x }}\ndef main(): i64 {{ f(1) }}\n"
def seq_case(k):
    b=''.join(f"let x{i+1}: i64 = t.case {{ A => x{i}, B => x{i} + 1, C => x{i} * 2 }}; " for i in range(k))
    return D+f"def f(t: Tri, x0: i64): i64 {{ {b} x{k} }}\ndef main(): i64 {{ f(A, 1) }}\n"
def nest_case(k):
    def g(i): return "x" if i==0 else f"t.case {{ A => {g(i-1)}, B => x + {i}, C => x }}"
    return D+f"def f(t: Tri, x: i64): i64 {{ let y: i64 = {g(k)}; y + x }}\ndef main(): i64 {{ f(A, 1) }}\n"
def mixed(k):
    b=''.join((f"let x{i+1}: i64 = t.case {{ A => x{i}, B => x{i} + 1, C => if x{i} == 0 {{ 1 }} else {{ 2 }} }}; " if i%2 else f"let x{i+1}: i64 = if x{i} < {i} {{ t.case {{ A => 1, B => 2, C => x{i} }} }} else {{ x{i} }}; ") for i in range(k))
    return D+f"def f(t: Tri, x0: i64): i64 {{ {b} x{k} }}\ndef main(): i64 {{ f(A, 1) }}\n"
fams={'seq_if':seq_if,'nest_if':nest_if,'seq_case':seq_case,'nest_case':nest_case,'mixed':mixed}
bad=0
for name,g in fams.items():
    for k in [1,2,4,8,12,16]:
        f=f'/tmp/agent_m1/fam/{name}_{k}.sc'
        open(f,'w').write(g(k))
        out=subprocess.run([H],input=f'stages {f} 2\n',capture_output=True,text=True,timeout=60).stdout
        s1=s2=None
        for line in out.splitlines():
            if line.startswith('S1 OK '): s1=line[6:]
            if line.startswith('S2 OK '): s2=line[6:]
        if not s1 or not s2: print(name,k,'FAIL',out[:300]); bad+=1; continue
        open(f+'.s1','w').write(s1); open(f+'.s2','w').write(s2)
        r=subprocess.run([F2C,'size',f+'.s1',f+'.s2'],capture_output=True,text=True,timeout=120).stdout.strip()
        print(name,k,r)
        if 'ok=true' not in r: bad+=1
print('bad',bad)
