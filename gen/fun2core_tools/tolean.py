#!/usr/bin/env python3
# converts S1 (checked ...) / S2 (prog ...) dumps into Lean constructor terms
import sys
def parse(s):
    i=0
    def p():
        nonlocal i
        while s[i].isspace(): i+=1
        if s[i]=='(':
            i+=1; items=[]
            while True:
                while s[i].isspace(): i+=1
                if s[i]==')': i+=1; return items
                items.append(p())
        if s[i]=='"':
            j=i+1
            while s[j]!='"':
                if s[j]=='\\': j+=1
                j+=1
            r=s[i:j+1]; i=j+1; return ('str',r[1:-1])
        j=i
        while not s[j].isspace() and s[j] not in '()': j+=1
        r=s[i:j]; i=j; return r
    return p()
def S(x): return '"'+x[1]+'"'
def lst(xs): return '['+', '.join(xs)+']'
# ---- Fun
def fty(t):
    if t=='i64': return '.i64'
    return f'(.decl {S(t[1])} {ftys(t[2:])})'
def ftys(ts):
    r='.nil'
    for t in reversed(ts): r=f'(.cons {fty(t)} {r})'
    return r
def foty(t): return 'none' if t=='none' else f'(some {fty(t)})'
def fchi(c): return '.'+c
def fb(b): return f'⟨{S(b[1])}, {fchi(b[2])}, {fty(b[3])}⟩'
def fctx(c): return lst([fb(b) for b in c[1:]])
OPS={'+':'.sum','-':'.sub','*':'.prod','/':'.div','%':'.rem'}
def fterm(t):
    h=t[0]
    if h=='var': return f'(.var {S(t[1])} {foty(t[2])} {"none" if t[3]=="none" else "(some "+fchi(t[3])+")"})'
    if h=='lit': return f'(.lit ({t[1]}))'
    if h=='op': return f'(.op {fterm(t[2])} {OPS[t[1]]} {fterm(t[3])})'
    if h=='ifc':
        if t[3]=='none': return f'(.ifz .{t[1]} {fterm(t[2])} {fterm(t[4])} {fterm(t[5])} {foty(t[6])})'
        return f'(.ifc .{t[1]} {fterm(t[2])} {fterm(t[3])} {fterm(t[4])} {fterm(t[5])} {foty(t[6])})'
    if h=='print': return f'(.print {"true" if t[1]=="nl" else "false"} {fterm(t[2])} {fterm(t[3])} {foty(t[4])})'
    if h=='let': return f'(.letIn {S(t[1])} {fty(t[2])} {fterm(t[3])} {fterm(t[4])} {foty(t[5])})'
    if h=='call': return f'(.call {S(t[1])} {fterms(t[2][1:])} {foty(t[3])})'
    if h=='ctor': return f'(.ctor {S(t[1])} {fterms(t[2][1:])} {foty(t[3])})'
    if h=='dtor': return f'(.dtor {fterm(t[1])} {S(t[2])} {ftys(t[3][1:])} {fterms(t[4][1:])} {foty(t[5])})'
    if h=='case': return f'(.case {fterm(t[1])} {ftys(t[2][1:])} {fclauses(t[3][1:])} {foty(t[4])})'
    if h=='new': return f'(.new {fclauses(t[1][1:])} {foty(t[2])})'
    if h=='label': return f'(.label {S(t[1])} {fterm(t[2])} {foty(t[3])})'
    if h=='goto': return f'(.goto {S(t[1])} {fterm(t[2])} {foty(t[3])})'
    if h=='exit': return f'(.exit {fterm(t[1])} {foty(t[2])})'
    if h=='paren': return f'(.paren {fterm(t[1])})'
    raise Exception(h)
def fterms(ts):
    r='.nil'
    for t in reversed(ts): r=f'(.cons {fterm(t)} {r})'
    return r
def fclauses(cs):
    r='.nil'
    for c in reversed(cs):
        r=f'(.cons .{c[1]} {S(c[2])} {lst([S(n) for n in c[3][1:]])} {fctx(c[4])} {fterm(c[5])} {r})'
    return r
def fchecked(t):
    datas=lst([f'⟨{S(d[1])}, {lst([S(x) for x in d[2][1:]])}, {lst([f"⟨{S(c[1])}, {fctx(c[2])}⟩" for c in d[3:]])}⟩' for d in t[1][1:]])
    cod=lst([f'⟨{S(d[1])}, {lst([S(x) for x in d[2][1:]])}, {lst([f"⟨{S(c[1])}, {fctx(c[2])}, {fty(c[3])}⟩" for c in d[3:]])}⟩' for d in t[2][1:]])
    defs=lst([f'⟨{S(d[1])}, {fctx(d[2])}, {fty(d[3])}, {fterm(d[4])}⟩' for d in t[3][1:]])
    return f'⟨{datas},\n   {cod},\n   {defs}⟩'
# ---- Core
def cid(i): return f'⟨{S(i[1])}, {i[2]}⟩'
def cty(t): return '.i64' if t=='i64' else f'(.decl {cid(t[1])})'
def cb(b): return f'⟨{cid(b[1])}, .{b[2]}, {cty(b[3])}⟩'
def cctx(c): return lst([cb(b) for b in c[1:]])
def cterm(t,pc):
    h=t[0]
    if h=='var': return f'(.var .{pc} {cid(t[1])} {cty(t[2])})'
    if h=='lit': return f'(.lit ({t[1]}))'
    if h=='op': return f'(.op {cterm(t[2],"prd")} {OPS[t[1]]} {cterm(t[3],"prd")})'
    if h=='mu': return f'(.mu .{pc} {cid(t[1])} {cty(t[2])} {cstmt(t[3])})'
    if h=='xtor': return f'(.xtor .{pc} {cid(t[1])} {cargs(t[2][1:])} {cty(t[3])})'
    if h=='xcase': return f'(.xcase .{pc} {cty(t[1])} {cclauses(t[2:])})'
    raise Exception(h)
def cargs(xs):
    r='.nil'
    for a in reversed(xs): r=f'(.cons .{a[0]} {cterm(a[1],a[0])} {r})'
    return r
def cclauses(cs):
    r='.nil'
    for c in reversed(cs): r=f'(.cons {cid(c[1])} {cctx(c[2])} {cstmt(c[3])} {r})'
    return r
def cstmt(s):
    h=s[0]
    if h=='cut': return f'(.cut {cty(s[1])} {cterm(s[2],"prd")} {cterm(s[3],"cns")})'
    if h=='ifc':
        if s[3]=='none': return f'(.ifz .{s[1]} {cterm(s[2],"prd")} {cstmt(s[4])} {cstmt(s[5])})'
        return f'(.ifc .{s[1]} {cterm(s[2],"prd")} {cterm(s[3],"prd")} {cstmt(s[4])} {cstmt(s[5])})'
    if h=='print': return f'(.print {"true" if s[1]=="nl" else "false"} {cterm(s[2],"prd")} {cstmt(s[3])})'
    if h=='call': return f'(.call {cid(s[1])} {cargs(s[2][1:])} {cty(s[3])})'
    if h=='exit': return f'(.exit {cterm(s[1],"prd")} {cty(s[2])})'
    raise Exception(h)
def ctd(d): return f'⟨{cid(d[1])}, {lst([f"⟨{cid(x[1])}, {cctx(x[2])}⟩" for x in d[2:]])}⟩'
def cprog(t):
    defs=lst([f'⟨{cid(d[1])}, {cctx(d[2])}, {cstmt(d[3])}⟩' for d in t[4][1:]])
    return f'⟨{defs},\n   {lst([ctd(d) for d in t[2][1:]])},\n   {lst([ctd(d) for d in t[3][1:]])}, {t[1]}⟩'
if __name__=='__main__':
    s=open(sys.argv[2]).read()
    t=parse(s)
    print(fchecked(t) if sys.argv[1]=='fun' else cprog(t))
