#!/usr/bin/env python3
"""check_generic_sem.py <dir-with-.s5-files> [nruns] [model-exe]

Validation of Scc/Backend/AbstractMachine.lean: for every linear program, the abstract backend machine run on the
mock code of the model (`mockrun <file> <args> <fuel>` = `runLineAbs (runLineMock f true 0) args fuel`) must show the
same behaviour (trace and result) as the AxCut positional machine (`pos <file> <args> <fuel>` = `Pos.runLinePos`);
`div-by-zero`/`div-overflow` correspond to `divByZero`/`overflow`; runs that exhaust the fuel are not compared."""
import subprocess, sys, glob, os, random, collections, re
M = sys.argv[3] if len(sys.argv) > 3 else '/tmp/agent_gen/lean/.lake/build/bin/genmodel'
files = sorted(glob.glob(sys.argv[1] + '/*.s5'))
files = [f for f in files if os.path.getsize(f) > 0]
nruns = int(sys.argv[2]) if len(sys.argv) > 2 else 1
r = random.Random(5)
jobs = []
for f in files:
    txt = open(f).read()
    m = re.search(r'\(defs \(def \(id "[^"]*" \d+\) \(ctx((?: \(b \(id "[^"]*" \d+\) ext i64\))*)\)', txt)
    n = m.group(1).count('(b ') if m else 0
    for _ in range(nruns):
        args = ','.join(str(r.choice([0, 1, -1, 5, 12, -7, 100, 3, 2**63-1, -2**63])) for _ in range(n)) or '_'
        jobs.append((f, args))
req = ''.join('mockrun %s %s 300000\npos %s %s 300000\n' % (f, a, f, a) for f, a in jobs)
out = subprocess.run([M], input=req, capture_output=True, text=True).stdout.split('\nEND\n')
cnt = collections.Counter(); bad = []
def norm(s):
    s = s.strip()
    s = s.replace('stuck:div-by-zero', 'stuck:divByZero').replace('stuck:div-overflow', 'stuck:overflow')
    return s
for i, (f, a) in enumerate(jobs):
    x, y = norm(out[2*i]), norm(out[2*i+1])
    if 'outOfFuel' in x or 'outOfFuel' in y:
        cnt['fuel'] += 1
    elif x == y:
        cnt['agree:' + x.split(' res=')[1].split(':')[0]] += 1
    else:
        cnt['DIFF'] += 1; bad.append('%s %s\n   abs: %s\n   pos: %s' % (os.path.basename(f), a, x[:150], y[:150]))
print(dict(cnt)); print('\n'.join(bad[:6]))
