#!/usr/bin/env python3
"""mutate_text.py <seed> <n> <outdir> <input files...>

Seeded text mutator for the parser/lexer differential (C16/C18).  Writes n files
<outdir>/m<k>.sc, each obtained from one of the input files by 1-3 random mutations:

  token level : delete / duplicate / swap two / replace by a token from the pool / insert a pool token
  char level  : replace / insert / delete one character (pool of awkward characters, all valid UTF-8)
  truncation  : cut the text at a random character position (or at a token boundary)
  splice      : cut out a random token range / copy a token range elsewhere
  whitespace  : remove or change the whitespace between two tokens (space, newline, tab, U+00A0, comment)

Python stdlib only; the output is always valid UTF-8 (the harness rejects other files before parsing).
"""
import os
import random
import re
import sys

TOKEN_RE = re.compile(
    r"//[^\n\r]*|[A-Za-z_][A-Za-z0-9_]*|[0-9]+|==|!=|<=|>=|=>|\s+|.", re.S)

POOL = [
    "(", ")", "{", "}", "[", "]", ";", "=>", ",", ":", ":cns", ": cns", ".", "=", "==", "!=", "<",
    "<=", ">", ">=", "== 0", "0 ==", "!= 0", "0 !=", "< 0", "0 <", "<= 0", "0 <=", "> 0", "0 >",
    ">= 0", "0 >=", "==0", "0==", "<0", "0<", "+", "*", "-", "/", "%", "x", "y", "foo", "Nil",
    "Cons", "List", "0", "1", "00", "-0", "-1", "42", "9223372036854775807", "9223372036854775808",
    "-9223372036854775808", "99999999999999999999", "label", "goto", "exit", "if", "else",
    "print_i64", "println_i64", "let", "case", "new", "def", "data", "codata", "i64", "cns",
    "//", "// c\n", "// |", "//|\n", "|", "@", "!", "_", "\n", "\r", "\t", " ", " ", "　",
    "​", "é", "\"", "'", "#", "&", "~", "$", "\\", "^", "?",
]

CHARS = list("(){}[];,:.=!<>+*-/%0123456789 \n\r\t|_@#xXcnsi") + [" ", " ", "ä", "\U0001f600"]

GAPS = ["", " ", "  ", "\n", "\t", "\r\n", " ", " // c\n", "//\n", "// |\n"]


def tokens(text):
    return TOKEN_RE.findall(text)


def mutate(rng, text):
    toks = tokens(text)
    kind = rng.randrange(14)
    if not toks:
        return rng.choice(POOL)
    i = rng.randrange(len(toks))
    if kind == 0:      # delete token
        del toks[i]
    elif kind == 1:    # duplicate token
        toks.insert(i, toks[i])
    elif kind == 2:    # swap two tokens
        j = rng.randrange(len(toks))
        toks[i], toks[j] = toks[j], toks[i]
    elif kind == 3:    # replace token
        toks[i] = rng.choice(POOL)
    elif kind == 4:    # insert pool token (with or without surrounding blanks)
        t = rng.choice(POOL)
        if rng.random() < 0.5:
            t = " " + t + " "
        toks.insert(i, t)
    elif kind == 5:    # replace char
        s = "".join(toks)
        k = rng.randrange(len(s))
        return s[:k] + rng.choice(CHARS) + s[k + 1:]
    elif kind == 6:    # insert char
        s = "".join(toks)
        k = rng.randrange(len(s) + 1)
        return s[:k] + rng.choice(CHARS) + s[k:]
    elif kind == 7:    # delete char
        s = "".join(toks)
        k = rng.randrange(len(s))
        return s[:k] + s[k + 1:]
    elif kind == 8:    # truncate at char
        s = "".join(toks)
        return s[:rng.randrange(len(s) + 1)]
    elif kind == 9:    # truncate at token
        toks = toks[:i]
    elif kind == 10:   # cut out a token range
        j = min(len(toks), i + rng.randrange(1, 8))
        del toks[i:j]
    elif kind == 11:   # copy a token range elsewhere
        j = min(len(toks), i + rng.randrange(1, 8))
        k = rng.randrange(len(toks) + 1)
        toks[k:k] = toks[i:j]
    elif kind == 12:   # change the gap between two tokens
        ws = [k for k, t in enumerate(toks) if t.isspace()]
        if ws:
            toks[rng.choice(ws)] = rng.choice(GAPS)
        else:
            toks.insert(i, rng.choice(GAPS))
    else:              # squeeze: remove all whitespace in a window
        j = min(len(toks), i + rng.randrange(2, 12))
        toks[i:j] = [t for t in toks[i:j] if not t.isspace()]
    return "".join(toks)


def main():
    if len(sys.argv) < 5:
        sys.stderr.write(__doc__)
        sys.exit(2)
    seed, n, outdir = int(sys.argv[1]), int(sys.argv[2]), sys.argv[3]
    inputs = []
    for path in sys.argv[4:]:
        with open(path, encoding="utf-8", newline="") as fh:
            inputs.append(fh.read())
    os.makedirs(outdir, exist_ok=True)
    rng = random.Random(seed)
    for k in range(n):
        text = rng.choice(inputs)
        # large inputs: mutate a window so that mutations hit interesting places equally often
        for _ in range(rng.choice([1, 1, 1, 2, 2, 3])):
            text = mutate(rng, text)
        with open(os.path.join(outdir, "m%05d.sc" % k), "w", encoding="utf-8", newline="") as fh:
            fh.write(text)


if __name__ == "__main__":
    main()
