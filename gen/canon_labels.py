#!/usr/bin/env python3
"""canon_labels.py  (stdin -> stdout)

Canonicalise the label numbers drawn from axcut2backend's process-global `fresh_label()` counter,
so that code texts produced from different counter start values can be compared.

Generated labels have the forms `lab<N>` (ifc.rs and the backends' memory code) and
`<MangledType>_<N>` / `<MangledType>_<N>_<xtor>` (switch.rs / create.rs).  The numbers N that are
renumbered are found at their DEFINITION sites only (so that user names containing digits and
underscores are left alone):
  * mock text:      a line `label lab<N>`, or a line `label <M>_<N>` that is directly followed by a
                    `jumpfixed <M>_<N>_…` or `label <M>_<N>_…` line, or that is referenced by
                    `ll <t> <M>_<N>`;
  * assembly text:  a line `lab<N>:` or `<M>_<N>:` with the same follow-up rule (`<M>_<N>_…:` or a
                    jump to `<M>_<N>_…` next), or referenced by lea/ADR/LA of `<M>_<N>`.
Every such label name L (with number N) is mapped to the k-th fresh number (k = order of first
DEFINITION-or-REFERENCE occurrence in the text) and every whole-token occurrence of L, and of
L_<suffix>, is rewritten: `lab<N>` -> `lab#<k>`, `<M>_<N>` -> `<M>_#<k>`.
Works on both the escaped one-line form (`\\n` inside quotes, as in harness replies) and plain text.
"""
import re
import sys

TOKEN = re.compile(r'[^\s,\[\]():]+')


def canon(text: str) -> str:
    escaped = '\\n' in text and '\n' not in text.strip('\n')
    lines = text.split('\\n') if escaped else text.split('\n')

    def deflabel(line):
        s = line.strip()
        m = re.match(r'^label (\S+)$', s)
        if m:
            return m.group(1)
        m = re.match(r'^([^\s:;#]+):$', s)
        if m:
            return m.group(1)
        return None

    # pass 1: find generated base labels at definition sites
    alltext = '\n'.join(lines)
    bases = set()
    for i, line in enumerate(lines):
        name = deflabel(line)
        if name is None:
            continue
        if re.fullmatch(r'lab\d+', name):
            bases.add(name)
            continue
        if re.fullmatch(r'.*_\d+', name):
            # table/clause follow-up or referenced as an address
            nxt = ''
            for j in range(i + 1, len(lines)):
                t = lines[j].strip()
                if t == '' or t.startswith('comment ') or t.startswith(';') or t.startswith('//') or t.startswith('#'):
                    continue
                nxt = t
                break
            follow = (name + '_') in nxt
            referenced = re.search(r'(?:\bll \d+ |rel |ADR [^,]+, |LA [^,]+, )' + re.escape(name) + r'(?![\w])', alltext) is not None
            if follow or referenced:
                bases.add(name)
    if not bases:
        return text
    # pass 2: number by first occurrence of any token that is a base or base_<suffix>
    order = {}

    def base_of(tok):
        if tok in bases:
            return tok
        # longest base that is a proper prefix followed by '_'
        best = None
        for b in bases:
            if tok.startswith(b + '_') and (best is None or len(b) > len(best)):
                best = b
        return best

    def rename(tok):
        b = base_of(tok)
        if b is None:
            return tok
        if b not in order:
            order[b] = len(order) + 1
        k = order[b]
        if re.fullmatch(r'lab\d+', b):
            nb = 'lab#%d' % k
        else:
            nb = b[:b.rfind('_')] + '_#%d' % k
        return nb + tok[len(b):]

    out = []
    for line in lines:
        s = line.lstrip()
        if s.startswith('comment ') or s.startswith(';') or s.startswith('//'):
            out.append(line)  # comments never mention generated labels
            continue
        # definition lines `name:` keep the colon
        out.append(TOKEN.sub(lambda m: rename(m.group(0)), line))
    return ('\\n' if escaped else '\n').join(out)


if __name__ == '__main__':
    sys.stdout.write(canon(sys.stdin.read()))
