#!/usr/bin/env python3
"""RV codegen tie (C08/C14 correspondence S6): the Lean backend model's routine text must be EXACTLY
the harness' S7r text (the label counter of the model is started where the harness' counter stood),
or both must panic with the same class of message.  Prints coverage statistics of the equal texts.
usage: rv_codegen_tie.py (stages|axcut|axcutlin) files...
env: SCC_HARNESS, SCC_MODEL (a line-protocol driver answering `codegen rv <s5file> <hooks 0|1> <counterStart>`
with `Scc.RV.runLineCodegen`), SCC_TMP.   python3 stdlib only."""
import sys,re,os
import subprocess, re, sys, os
import os
HARNESS=os.environ.get('SCC_HARNESS','/verif/harness/target/debug/scc-harness')
RVMODEL=os.environ.get('SCC_MODEL','/verif/lean/.lake/build/bin/sccmodel')
TMP=os.environ.get('SCC_TMP','/tmp')
def unq(s):
    assert s[0]=='"' and s[-1]=='"', s[:50]
    out=[];i=1
    while i<len(s)-1:
        c=s[i]
        if c=='\\':
            d=s[i+1]; out.append({'n':'\n','r':'\r','t':'\t'}.get(d,d)); i+=2
        else: out.append(c); i+=1
    return ''.join(out)
class Proc:
    def __init__(self,cmd):
        self.p=subprocess.Popen(cmd,stdin=subprocess.PIPE,stdout=subprocess.PIPE,stderr=subprocess.DEVNULL,text=True,bufsize=1)
    def ask(self,line):
        self.p.stdin.write(line+'\n'); self.p.stdin.flush()
        res=[]
        while True:
            l=self.p.stdout.readline()
            if l=='' : raise RuntimeError('eof from '+str(self.p.args)+' on '+line)
            l=l.rstrip('\n')
            if l=='END': return res
            res.append(l)
def stage_lines(lines):
    d={}
    for l in lines:
        m=re.match(r'^(S\w+) (OK|PANIC|DIAG) ?(.*)$',l,re.S)
        if m: d[m.group(1)]=(m.group(2),m.group(3))
    return d
def labels(text): return [l[:-1] for l in text.split('\n') if l.endswith(':') and ' ' not in l]
def offset(hl, ml):
    for a,b in zip(hl,ml):
        if a!=b:
            ma=re.search(r'(\d+)(\D*)$',a); mb=re.search(r'(\d+)(\D*)$',b)
            # numbers may be followed by _Xtor suffix; find the differing digit group
            i=0
            while i<min(len(a),len(b)) and a[i]==b[i]: i+=1
            while i>0 and a[i-1].isdigit(): i-=1
            na=re.match(r'\d+',a[i:]); nb=re.match(r'\d+',b[i:])
            if na and nb: return int(na.group())-int(nb.group())
            return None
    return 0
def panic_class(msg):
    for k in ['Out of registers','not implemented in RISC-V backend','not found in context','not found','overflow']:
        if k in msg: return k
    return msg
from collections import Counter
CTX=Counter(); INS=Counter(); FIELDS=Counter(); LITMAG=Counter()
def cover(t):
    for l in t.split('\n'):
        if l.startswith('// #ctx ['):
            CTX[len(l[9:-1].split())]+=1
        elif l.startswith('// let '):
            inner=l[l.index('(')+1:l.rindex(')')]
            FIELDS[0 if not inner.strip() else inner.count(',')+1]+=1
        elif l.startswith('// create '):
            inner=l[l.index('= (')+3:l.index(')\\{')]
            FIELDS['env%d'%(0 if not inner.strip() else inner.count(',')+1)]+=1
        elif l and not l.startswith('//') and not l.endswith(':'):
            w=l.split()
            k=w[0]
            if k in('BEQ','BNE','BLT','BLE','BGT','BGE'): k+=('z' if w[2]=='X0' else '2')
            if k=='ADD' and not w[3].startswith('X'): k='ADDI'
            INS[k]+=1
            if k=='LI':
                v=abs(int(w[2])); LITMAG[v.bit_length()]+=1
def main():
    mode=sys.argv[1]; files=sys.argv[2:]
    h=Proc([HARNESS]); r=Proc([RVMODEL])
    ok=bad=pan=0
    for f in files:
        d=stage_lines(h.ask(f'{mode} {f}'))
        if 'S5' not in d or d['S5'][0]!='OK' or 'S7r' not in d:
            print('SKIP',f,{k:v[0] for k,v in d.items()}); continue
        s5=d['S5'][1]
        tmp=os.path.join(TMP,'rv_tie_cur.s5'); open(tmp,'w').write(s5)
        st,rest=d['S7r']
        m=r.ask(f'codegen rv {tmp} 1 0')
        mtext='\n'.join(m)
        if st=='PANIC':
            if mtext.startswith('PANIC') and panic_class(mtext)==panic_class(rest): pan+=1
            else: bad+=1; print('PANIC-MISMATCH',f,'harness:',rest[:100],'model:',mtext[:100])
            continue
        n,q=rest.split(' ',1); htext=unq(q)
        if not mtext.startswith('OK '):
            bad+=1; print('MODEL-FAIL',f,mtext[:200]); continue
        head,mbody=mtext.split('\n',1)
        off=offset(labels(htext),labels(mbody))
        if off:
            m=r.ask(f'codegen rv {tmp} 1 {off}'); mtext='\n'.join(m); head,mbody=mtext.split('\n',1)
        if head=='OK '+n and mbody==htext: ok+=1; cover(htext)
        else:
            bad+=1; print('DIFF',f,'off',off,head,n)
            hl=htext.split('\n'); ml=mbody.split('\n')
            for i,(a,b) in enumerate(zip(hl,ml)):
                if a!=b: print('  line',i,'harness:',a,'| model:',b); break
            else: print('  lengths',len(hl),len(ml))
    print(f'equal={ok} panic-equal={pan} bad={bad}')
    print('ctx sizes',sorted(CTX.items()))
    print('instr',sorted(INS.items()))
    print('let fields / closure env sizes',sorted(FIELDS.items(),key=str))
    print('LI magnitude (bit length)',sorted(LITMAG.items()))
main()
