#!/usr/bin/env python3
"""gen_family.py — scalable program families for C19 (size of every stage polynomial in the source).

CLI: gen_family.py <family> <k>   prints a Fun program whose size is LINEAR in k and that contains k
sequenced or nested branch points followed by further code.  Families:
  seqif      k sequenced conditionals, each followed by the rest
  nestif     conditionals nested in the scrutinee/operand position (result of one feeds the next)
  seqcase    k sequenced matches on a 2-constructor type
  seqcase3   k sequenced matches on a 4-constructor type (critical pairs over multi-constructor types)
  nestcase   matches nested in scrutinee position
  letcase    chains of lets over matches producing data, consumed by the next match
  codata     k sequenced destructor calls on objects built under conditionals
  mixed      rotation of the above constructs
"""
import sys

HEAD = """data List[A] { Nil, Cons(x: A, xs: List[A]) }
data Color { Red, Green, Blue, Gray }
data Option[A] { None, Some(v: A) }
codata Fun[A, B] { apply(x: A): B }
"""


def seqif(k):
    body = []
    for i in range(k):
        body.append("let a%d: i64 = if x < %d { x + %d } else { x - %d };" % (i, i, i, i))
    total = "x"
    for i in range(k):
        total = "(%s + a%d)" % (total, i)
    return "def f(x: i64): i64 { %s %s }\n" % (" ".join(body), total)


def nestif(k):
    t = "x"
    for i in range(k):
        t = "(if %s < %d { %s + 1 } else { x })" % (t, i, "x")
    return "def f(x: i64): i64 { %s }\n" % t


def seqcase(k):
    body = []
    for i in range(k):
        body.append("let a%d: i64 = l.case[i64] { Nil => %d, Cons(h, t) => h + %d };" % (i, i, i))
    total = "x"
    for i in range(k):
        total = "(%s + a%d)" % (total, i)
    return "def f(x: i64, l: List[i64]): i64 { %s %s }\n" % (" ".join(body), total)


def seqcase3(k):
    body = []
    for i in range(k):
        body.append("let a%d: i64 = c.case { Red => %d, Green => x + %d, Blue => x - %d, Gray => x };" % (i, i, i, i))
    total = "x"
    for i in range(k):
        total = "(%s + a%d)" % (total, i)
    return "def f(x: i64, c: Color): i64 { %s %s }\n" % (" ".join(body), total)


def nestcase(k):
    t = "l"
    for i in range(k):
        t = "(%s.case[i64] { Nil => Cons(%d, Nil), Cons(h, t) => t })" % (t, i)
    return "def f(x: i64, l: List[i64]): i64 { %s.case[i64] { Nil => 0, Cons(h, t) => h } }\n" % t


def letcase(k):
    body = ["let c0: Color = if x < 0 { Red } else { Blue };"]
    for i in range(k):
        body.append("let c%d: Color = c%d.case { Red => Green, Green => Blue, Blue => Gray, Gray => Red };" % (i + 1, i))
    return "def f(x: i64): i64 { %s c%d.case { Red => 1, Green => 2, Blue => 3, Gray => 4 } }\n" % (" ".join(body), k)


def letcallcase(k):
    """let t: T = f(..); t.case {...} with a NON-VALUE bound term and a 4-constructor type, nested k levels
    in one branch (critical pair mu / mu~ whose mu~ body is a cut of the variable against a case)"""
    inner = "x"
    for i in range(k, 0, -1):
        inner = "(let t%d: Color = pick(x + %d); t%d.case { Red => %d, Green => x + %d, Blue => x - %d, Gray => %s })" % (i, i, i, i, i, i, inner)
    return "def pick(x: i64): Color { if x < 3 { Red } else { if x < 6 { Green } else { Gray } } }\ndef f(x: i64): i64 { %s }\n" % inner


def closedif(k):
    """k sequenced conditionals whose continuation is CLOSED (mentions no variable at all: neither the result
    of the conditional nor any parameter) — only possible in a parameterless definition"""
    body = " ".join("let a%d: i64 = if %d < %d { %d } else { %d };" % (i, i, i + 1, i, i + 1) for i in range(k))
    return "def main(): i64 { %s 7 }\n" % body


def closedcase(k):
    body = " ".join("let a%d: i64 = (Cons(%d, Nil)).case[i64] { Nil => 0, Cons(h, t) => h };" % (i, i) for i in range(k))
    return "def main(): i64 { %s 7 }\n" % body


def callnest(k):
    """a branch point bound by a let whose continuation is a CALL with a nested such term as argument, k deep
    (the consumer of each conditional is `mu~x.<call g(x, E)>` with arbitrary code E in argument position)"""
    e = "x"
    for i in range(1, k + 1):
        e = "(let y%d: i64 = if x < %d { x } else { %d }; g(y%d, %s))" % (i, i, i, i, e)
    return "def g(a: i64, b: i64): i64 { a + b }\ndef f(x: i64): i64 { %s }\n" % e


def callnestcase(k):
    e = "x"
    for i in range(1, k + 1):
        e = "(let y%d: i64 = c.case { Red => %d, Green => x, Blue => x + %d, Gray => 0 }; g(y%d, %s))" % (i, i, i, i, e)
    return "def g(a: i64, b: i64): i64 { a + b }\ndef f(x: i64, c: Color): i64 { %s }\n" % e


def seqlabel(k):
    """k sequenced labels of integer type, each reached on two paths (goto and fall-through), followed by further code"""
    body = ["let x0: i64 = x;"]
    for i in range(1, k + 1):
        body.append("let x%d: i64 = label a%d { if x%d == %d { goto a%d (%d) } else { x%d + %d } };" % (i, i, i - 1, i, i, i, i - 1, i))
    return "def f(x: i64): i64 { %s println_i64(x%d); x%d }\n" % (" ".join(body), k, k)


def codata(k):
    body = []
    for i in range(k):
        body.append("let g%d: Fun[i64, i64] = new { apply(y) => if y < %d { y + x } else { y } };" % (i, i))
        body.append("let b%d: i64 = g%d.apply[i64, i64](x + %d);" % (i, i, i))
    total = "x"
    for i in range(k):
        total = "(%s + b%d)" % (total, i)
    return "def f(x: i64): i64 { %s %s }\n" % (" ".join(body), total)


def mixed(k):
    body = []
    for i in range(k):
        r = i % 4
        if r == 0:
            body.append("let a%d: i64 = if x < %d { x + %d } else { x };" % (i, i, i))
        elif r == 1:
            body.append("let a%d: i64 = c.case { Red => %d, Green => x, Blue => x - %d, Gray => 0 };" % (i, i, i))
        elif r == 2:
            body.append("let a%d: i64 = l.case[i64] { Nil => %d, Cons(h, t) => h };" % (i, i))
        else:
            body.append("println_i64(x + %d);" % i)
            body.append("let a%d: i64 = label k%d { if x == %d { goto k%d (x) } else { %d } };" % (i, i, i, i, i))
    total = "x"
    for i in range(k):
        total = "(%s + a%d)" % (total, i)
    return "def f(x: i64, l: List[i64], c: Color): i64 { %s %s }\n" % (" ".join(body), total)


FAMILIES = {
    "seqif": (seqif, "f(arg)"),
    "nestif": (nestif, "f(arg)"),
    "seqcase": (seqcase, "f(arg, Cons(arg, Nil))"),
    "seqcase3": (seqcase3, "f(arg, Green)"),
    "nestcase": (nestcase, "f(arg, Cons(arg, Nil))"),
    "letcase": (letcase, "f(arg)"),
    "letcallcase": (letcallcase, "f(arg)"),
    "seqlabel": (seqlabel, "f(arg)"),
    "callnest": (callnest, "f(arg)"),
    "callnestcase": (callnestcase, "f(arg, Blue)"),
    "closedif": (closedif, None),      # the family IS main (only main has no return covariable)
    "closedcase": (closedcase, None),
    "codata": (codata, "f(arg)"),
    "mixed": (mixed, "f(arg, Cons(arg, Nil), Blue)"),
}


def program(family, k):
    fn, call = FAMILIES[family]
    if call is None:
        return HEAD + fn(k)
    return HEAD + fn(k) + "def main(arg: i64): i64 { println_i64(%s); 0 }\n" % call


if __name__ == "__main__":
    sys.stdout.write(program(sys.argv[1], int(sys.argv[2])))
