#!/usr/bin/env python3
"""Compare the Lean model of the Fun type checker with the real checker (harness).
usage: runcheck.py [-q] [--list FILE | files...]
For each .sc file: harness `stages f 1` -> S0 dump, S1 line; model(S0) -> OK/DIAG/PANIC; compare.
Prints a summary; mismatches are listed."""
import sys, subprocess, os, re, collections, hashlib

HARNESS = '/verif/harness/target/debug/scc-harness'
MODEL = os.environ.get('CHECKMODEL', '/tmp/agent_f2/lean/.lake/build/bin/checkmodel')
TMP = os.environ.get('CHECKTMP', '/tmp/agent_f2/dumps')

def parse_sexp(s):
    # returns nested lists / atoms (strings kept verbatim with quotes)
    i = 0
    n = len(s)
    stack = [[]]
    while i < n:
        c = s[i]
        if c in ' \n\t\r':
            i += 1
        elif c == '(':
            stack.append([]); i += 1
        elif c == ')':
            l = stack.pop(); stack[-1].append(l); i += 1
        elif c == '"':
            j = i + 1
            while s[j] != '"':
                if s[j] == '\\': j += 1
                j += 1
            stack[-1].append(s[i:j+1]); i = j + 1
        else:
            j = i
            while j < n and s[j] not in ' \n\t\r()': j += 1
            stack[-1].append(s[i:j]); i = j
    return stack[0][0]

def render(x):
    if isinstance(x, list):
        return '(' + ' '.join(render(y) for y in x) + ')'
    return x

def normalize_checked(text):
    t = parse_sexp(text)
    assert t[0] == 'checked'
    for k in (1, 2):
        head, items = t[k][0], t[k][1:]
        items.sort(key=lambda d: d[1])
        t[k] = [head] + items
    return render(t)

class Proc:
    def __init__(self, cmd):
        self.p = subprocess.Popen(cmd, stdin=subprocess.PIPE, stdout=subprocess.PIPE,
                                  stderr=subprocess.DEVNULL, text=True, bufsize=1)
    def send(self, line):
        self.p.stdin.write(line + '\n'); self.p.stdin.flush()
    def readline(self):
        return self.p.stdout.readline()

def harness_stage1(h, f):
    h.send(f'stages {f} 1')
    lines = []
    while True:
        l = h.readline()
        if not l: raise RuntimeError('harness died on ' + f)
        l = l.rstrip('\n')
        if l == 'END': break
        lines.append(l)
    s0 = s1 = None
    for l in lines:
        if l.startswith('S0 '): s0 = l[3:]
        if l.startswith('S1 '): s1 = l[3:]
    return s0, s1

def main():
    args = sys.argv[1:]
    quiet = False
    files = []
    while args:
        a = args.pop(0)
        if a == '-q': quiet = True
        elif a == '--list': files += [l.strip() for l in open(args.pop(0)) if l.strip()]
        else: files.append(a)
    os.makedirs(TMP, exist_ok=True)
    h = Proc([HARNESS]); m = Proc([MODEL])
    stats = collections.Counter()
    mism = []
    bycls = collections.defaultdict(collections.Counter)
    for f in files:
        s0, s1 = harness_stage1(h, f)
        if s0 is None or not s0.startswith('OK '):
            stats['noparse'] += 1
            if not quiet: print('NOPARSE', f, (s0 or '')[:100])
            continue
        dump = os.path.join(TMP, hashlib.md5(f.encode()).hexdigest() + '.s0')
        open(dump, 'w').write(s0[3:])
        m.send(dump)
        r = m.readline().rstrip('\n')
        os.unlink(dump)
        cls = os.path.basename(f).split('__')[1] if '__' in os.path.basename(f) else '-'
        if s1.startswith('OK '):
            if r.startswith('OK '):
                if s1[3:] == r[3:]:
                    stats['ok=ok'] += 1; stats['ok-exact'] += 1; bycls[cls]['agree'] += 1
                elif normalize_checked(s1[3:]) == normalize_checked(r[3:]):
                    stats['ok=ok'] += 1; bycls[cls]['agree'] += 1
                else:
                    stats['TREE-DIFF'] += 1; mism.append((f, 'TREE-DIFF', '')); bycls[cls]['TREE'] += 1
            else:
                stats['ACCEPT-MISMATCH'] += 1; mism.append((f, 'impl OK', r[:80])); bycls[cls]['ACC'] += 1
        elif s1.startswith('DIAG '):
            code = s1.split()[1]
            if r.startswith('DIAG '):
                if r.split()[1] == code:
                    stats['diag=diag'] += 1; bycls[cls]['agree'] += 1
                else:
                    stats['CODE-DIFF'] += 1; mism.append((f, 'impl ' + code, r)); bycls[cls]['CODE'] += 1
            else:
                stats['ACCEPT-MISMATCH'] += 1; mism.append((f, 'impl ' + s1[:60], r[:80])); bycls[cls]['ACC'] += 1
        else:
            if r.startswith('PANIC') and s1.startswith('PANIC'):
                stats['panic=panic'] += 1
            else:
                stats['OTHER'] += 1; mism.append((f, s1[:80], r[:80]))
    for x in mism[:200]:
        print('MISMATCH', *x)
    print(dict(stats))
    if len(bycls) > 1:
        for c in sorted(bycls): print('  class', c, dict(bycls[c]))

main()
