#!/usr/bin/env python3
"""one harness PROCESS for all files (counter keeps counting) vs model from counter 0, compared after canon_labels"""
import subprocess, sys, glob, os
sys.path.insert(0, '/verif/gen')
from canon_labels import canon
H = '/verif/harness/target/debug/scc-harness'; M = '/tmp/agent_gen/lean/.lake/build/bin/genmodel'
from cmp_mock import unq
files = sorted(glob.glob(sys.argv[1] + '/*.s5'))[:int(sys.argv[2])]
hout = subprocess.run([H], input=''.join('axcutlin %s nocode mock\n' % f for f in files), capture_output=True, text=True).stdout.split('\nEND\n')
mout = subprocess.run([M], input=''.join('mock %s 1 0\n' % f for f in files), capture_output=True, text=True).stdout.split('\nEND\n')
ok = bad = raw_equal = 0
for f, h, m in zip(files, hout, mout):
    hl = [l for l in h.split('\n') if l.startswith('S6m OK ')]
    if not hl: continue
    ht = unq(hl[0][7:]); mt = m[3:] if m.startswith('OK ') else m
    raw_equal += (ht == mt)
    if canon(ht) == canon(mt): ok += 1
    else: bad += 1; print('DIFF', f)
print('canon-equal', ok, 'differ', bad, '(raw equal without canonicalisation:', raw_equal, ')')
