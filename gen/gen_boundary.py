#!/usr/bin/env python3
"""gen_boundary.py — deterministic family of Fun programs that put N integer variables (N = 0..22,
crossing the register files of all backends: x86-64 spills from variable 6, AArch64 from 13, RV64
capacity 14) live across each kind of statement whose code depends on the placement:
  lit    a 64-bit literal of every magnitude class bound as variable N
  print  a print_i64 / println_i64 with all N variables live afterwards
  case   a match on a 2- and a 3-constructor value with all N variables live in the clauses
  ops    + - * / % with operands and target around position N
  clos   a closure capturing all N variables, invoked later
  obj    a constructor with N fields (N <= 8) built and matched
CLI: gen_boundary.py <outdir>   writes b_<kind>_<N>.sc (+ .args with the argument tuple)
Every program prints the sum of all variables (so every variable is observably preserved) and
returns a small value."""
import os
import sys

HEAD = """data List[A] { Nil, Cons(x: A, xs: List[A]) }
data Tri { A3, B3(v: i64), C3 }
codata Fun[A, B] { apply(x: A): B }
"""

LITS = [0, 1, -1, 65535, 65536, -65536, 2**31 - 1, 2**31, -(2**31), -(2**31) - 1, 2**32 + 1, 0xFFFF0000FFFF,
        2**63 - 1, -(2**63) + 1, 0x7FFF0000FFFF0000, -0x0001000000010000, 4294967297]


def lets(n, first_from_arg=True):
    out = []
    for i in range(n):
        if i == 0 and first_from_arg:
            out.append("let v0: i64 = arg + 1;")
        else:
            out.append("let v%d: i64 = %d;" % (i, 10 + i))
    return " ".join(out)


def total(n, extra=()):
    t = "0"
    for i in range(n):
        t = "(%s + v%d)" % (t, i)
    for e in extra:
        t = "(%s + %s)" % (t, e)
    return t


def prog(kind, n):
    body = lets(n)
    if kind == "lit":
        parts = [body]
        names = []
        for j, l in enumerate(LITS):
            # one literal per program variant would explode the family: bind each, print it, drop it
            parts.append("let big%d: i64 = %d; println_i64(big%d);" % (j, l, j))
        parts.append("println_i64(%s); 0" % total(n))
        return HEAD + "def main(arg: i64): i64 { %s }\n" % " ".join(parts)
    if kind == "print":
        return HEAD + "def main(arg: i64): i64 { %s print_i64(arg); println_i64(arg + 7); println_i64(%s); 0 }\n" % (body, total(n))
    if kind == "case":
        return HEAD + (
            "def main(arg: i64): i64 { %s let l: List[i64] = Cons(100, Nil); "
            "let r: i64 = l.case[i64] { Nil => 0, Cons(a, as) => %s }; println_i64(r); "
            "let t: Tri = B3(5); let q: i64 = t.case { A3 => 1, B3(w) => %s, C3 => 3 }; println_i64(q); 0 }\n"
            % (body, total(n, ["a"]), total(n, ["w"]))
        )
    if kind == "ops":
        if n < 2:
            return None
        a, b = "v%d" % (n - 1), "v%d" % (n - 2)
        ops = "let o1: i64 = %s + %s; let o2: i64 = %s - %s; let o3: i64 = %s * %s; let o4: i64 = %s / 3; let o5: i64 = %s %% 7; let o6: i64 = v0 / %s; let o7: i64 = v0 %% %s; let o8: i64 = %s / v0; let o9: i64 = %s %% v0; let o10: i64 = v1 / v0;" % (a, b, a, b, a, b, a, b, a, b, a, b)
        return HEAD + "def main(arg: i64): i64 { %s %s println_i64(%s); 0 }\n" % (body, ops, total(n, ["o1", "o2", "o3", "o4", "o5", "o6", "o7", "o8", "o9", "o10"]))
    if kind == "clos":
        return HEAD + (
            "def main(arg: i64): i64 { %s let f: Fun[i64, i64] = new { apply(y) => %s }; "
            "println_i64(f.apply[i64, i64](1)); println_i64(f.apply[i64, i64](2)); 0 }\n" % (body, total(n, ["y"]))
        )
    if kind == "cmp":
        # all six comparisons between the LAST variable (spilled for large N) and the FIRST (in a register), both orders
        if n < 2:
            return None
        a, b = "v%d" % (n - 1), "v0"
        parts = [body]
        k = 0
        for (x, y) in ((a, b), (b, a), (a, a)):
            for srt in ("==", "!=", "<", "<=", ">", ">="):
                parts.append("let c%d: i64 = if %s %s %s { 1 } else { 0 }; print_i64(c%d);" % (k, x, srt, y, k))
                k += 1
        for srt in ("==", "!=", "<", "<=", ">", ">="):
            parts.append("let z%d: i64 = if %s %s 0 { 1 } else { 0 }; print_i64(z%d);" % (k, a, srt, k))
            k += 1
        parts.append("println_i64(%s); 0" % total(n))
        return HEAD + "def main(arg: i64): i64 { %s }\n" % " ".join(parts)
    if kind == "shared":
        # a shared object (refcount > 0: loaded in SHARE mode) whose pointer sits at position N, with a
        # pointer-carrying variable at position 3 (whose first temporary is a register the loads use as scratch)
        decls = []
        for i in range(n):
            if i == 3:
                decls.append("let v3l: List[i64] = Cons(33, Nil);")
            elif i == 0:
                decls.append("let v0: i64 = arg + 1;")
            else:
                decls.append("let v%d: i64 = %d;" % (i, 10 + i))
        t = "0"
        for i in range(n):
            if i == 3:
                continue
            t = "(%s + v%d)" % (t, i)
        tail3 = "println_i64(v3l.case[i64] { Nil => 0, Cons(h, r) => h });" if n > 3 else ""
        return HEAD + (
            "def main(arg: i64): i64 { %s let l: List[i64] = Cons(100, Cons(200, Nil)); "
            "let a: i64 = l.case[i64] { Nil => 0, Cons(h, r) => h + %s }; println_i64(a); "
            "let b: i64 = l.case[i64] { Nil => 0, Cons(h, r) => r.case[i64] { Nil => h, Cons(h2, r2) => h2 + %s } }; println_i64(b); %s println_i64(%s); 0 }\n"
            % (" ".join(decls), t, t, tail3, t)
        )
    if kind == "obj":
        if n < 1 or n > 8:
            return None
        fields = ", ".join("f%d: i64" % i for i in range(n))
        args = ", ".join("v%d" % i for i in range(n))
        names = ", ".join("g%d" % i for i in range(n))
        s = "0"
        for i in range(n):
            s = "(%s + g%d)" % (s, i)
        return HEAD + "data Big { Mk(%s), Other }\n" % fields + (
            "def main(arg: i64): i64 { %s let o: Big = Mk(%s); let r: i64 = o.case { Mk(%s) => %s, Other => 0 }; println_i64(r); println_i64(%s); 0 }\n"
            % (body, args, names, s, total(n))
        )
    return None


def main():
    out = sys.argv[1]
    os.makedirs(out, exist_ok=True)
    n = 0
    for kind in ("lit", "print", "case", "ops", "clos", "obj", "cmp", "shared"):
        for N in range(0, 23):
            p = prog(kind, N)
            if p is None:
                continue
            base = os.path.join(out, "b_%s_%02d" % (kind, N))
            open(base + ".sc", "w").write(p)
            open(base + ".args", "w").write("4\nsequenced boundary\n")
            n += 1
    print(n, "programs")


if __name__ == "__main__":
    main()
