#!/usr/bin/env python3
"""cmp_parse.py <files...>: harness `stages f 0` vs model `parse f`"""
import sys, subprocess, collections, os
H='/verif/harness/target/debug/scc-harness'
M=os.environ.get('FUNMODEL','/verif/lean/.lake/build/bin/funmodel')
files=sys.argv[1:]
CMD='parse'
if files and files[0]=='--fixed':
    CMD='parsefixed'; files=files[1:]
if files and files[0]=='-l':
    files=[l.strip() for l in open(files[1]) if l.strip()]
hin=''.join(f'stages {f} 0\n' for f in files)
hout=subprocess.run([H],input=hin,capture_output=True,text=True).stdout.split('\n')
hres=[]; cur=[]
for l in hout:
    if l=='END':
        hres.append(cur); cur=[]
    elif l.startswith('S0 '): cur.append(l)
min_=''.join(f'{CMD} {f}\n' for f in files)
mout=subprocess.run([M],input=min_,capture_output=True,text=True).stdout.split('\n')
stats=collections.Counter(); bad=[]
for i,f in enumerate(files):
    h=hres[i][0] if i<len(hres) and hres[i] else 'S0 MISSING'
    m=mout[i] if i<len(mout) else 'MISSING'
    h=h[3:]
    if h.startswith('OK '):
        hc='OK'; same = (m==h)
    elif h.startswith('DIAG '):
        hc='DIAG'; code=h.split()[1]
        same = m.startswith('DIAG')
        if same:
            stats['diag_total']+=1
            if m.split()[1]==code: stats['diag_code_match']+=1
            else:
                stats['diag_code_diff']+=1; bad.append((f,'CODE',h[:60],m[:60]))
    elif h.startswith('PANIC'):
        hc='PANIC'; same = m.startswith('PANIC')
    elif h.startswith('IOERR'):
        stats['ioerr']+=1; continue
    else:
        hc='?'; same=False
    stats[hc]+=1
    if not same:
        stats['MISMATCH']+=1; bad.append((f,'CLASS',h[:200],m[:200]))
print(dict(stats))
for b in bad[:40]: print(*b,sep='\n   ')
