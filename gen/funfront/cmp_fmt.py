#!/usr/bin/env python3
"""cmp_fmt.py [-q] <files...>: harness fmt vs model renderPretty and token comparison"""
import sys, subprocess, collections, os, hashlib
H='/verif/harness/target/debug/scc-harness'
M=os.environ.get('FUNMODEL','/verif/lean/.lake/build/bin/funmodel')
W=[1,8,20,40,80,100,200]; I=[0,2,4,8]
files=sys.argv[1:]
if files and files[0]=='-l':
    files=[l.strip() for l in open(files[1]) if l.strip()]
tmp=os.environ.get('FUNTMP','/tmp/funfront_fmt_tmp'); os.makedirs(tmp,exist_ok=True)
def unq(s):
    assert s[0]=='"' and s[-1]=='"', s[:50]
    out=[];i=1
    while i<len(s)-1:
        c=s[i]
        if c=='\\':
            n=s[i+1]; out.append({'n':'\n','r':'\r','t':'\t'}.get(n,n)); i+=2
        else: out.append(c); i+=1
    return ''.join(out)
# stage 0 dumps
hin=''.join(f'stages {f} 0\n' for f in files)
hout=subprocess.run([H],input=hin,capture_output=True,text=True).stdout.split('\n')
res=[];cur=[]
for l in hout:
    if l=='END': res.append(cur);cur=[]
    elif l.startswith('S0 '): cur.append(l)
good=[]
for f,r in zip(files,res):
    if r and r[0].startswith('S0 OK '):
        d=os.path.join(tmp,hashlib.md5(f.encode()).hexdigest()+'.dump')
        open(d,'w').write(r[0][6:]); good.append((f,d))
print('parseable',len(good),'of',len(files))
reqs=[(f,d,w,i) for (f,d) in good for w in W for i in I]
hin=''.join(f'fmt {f} {w} {i}\n' for (f,d,w,i) in reqs)
hout=[l for l in subprocess.run([H],input=hin,capture_output=True,text=True).stdout.split('\n') if l.startswith('FMT ')]
assert len(hout)==len(reqs),(len(hout),len(reqs))
stats=collections.Counter(); bad=[]
min_=[]; texts=[]
for k,((f,d,w,i),l) in enumerate(zip(reqs,hout)):
    parts=l.split(' ',3)
    verdict=parts[2]
    if verdict in('REPARSE-FAIL','REPARSE-PANIC'):
        q=l[l.index(' "'):].strip() if False else None
    # text is the last quoted string: find the opening quote of it
    # format: FMT OK <verdict...> "<text>"; verdict may contain spaces but no quote char except in msg
    j=len(l)-1
    assert l[j]=='"'
    # scan backwards for unescaped quote
    j-=1
    while True:
        if l[j]=='"':
            # count preceding backslashes
            b=0;k2=j-1
            while l[k2]=='\\': b+=1;k2-=1
            if b%2==0: break
        j-=1
    text=unq(l[j:])
    v=l[7:j].strip()
    stats['real:'+v.split()[0]]+=1
    if v.split()[0]!='SAME': bad.append((f,w,i,'REAL',v[:100]))
    tf=os.path.join(tmp,f't{k}.txt'); open(tf,'w',newline='').write(text)
    texts.append(text)
    min_.append(f'fmt {d} {w} {i}\nfmttokens {d} {tf}\n')
mout=subprocess.run([M],input=''.join(min_),capture_output=True,text=True).stdout.split('\n')
for k,(f,d,w,i) in enumerate(reqs):
    m1=mout[2*k]; m2=mout[2*k+1]
    mt=unq(m1)
    if mt=='OK '+texts[k]: stats['layout_equal']+=1
    else:
        stats['layout_diff']+=1
        if len([b for b in bad if b[3]=='LAYOUT'])<5: bad.append((f,w,i,'LAYOUT',repr(texts[k][:300]),repr(mt[3:303])))
    if m2=='SAME': stats['tokens_same']+=1
    else:
        stats['tokens_diff']+=1; bad.append((f,w,i,'TOKENS',m2[:200]))
print(dict(stats))
seen=set()
for b in bad:
    key=(b[0],b[3])
    if '-q' in sys.argv or key not in seen:
        seen.add(key); print(*b,sep='\n   ')
