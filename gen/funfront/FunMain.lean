import Scc.Fun.Print
open Scc Scc.Fun Scc.Fun.Lex Scc.Fun.Parse Scc.Fun.Print

def dispatch (line : String) : IO String := do
  let line := line.trimAscii.toString
  match line.splitOn " " with
  | ["parse", file] => do
    let text ← IO.FS.readFile file
    pure (runLineParse text)
  | ["parsefixed", file] => do
    let text ← IO.FS.readFile file
    pure (runLineParseFixed text)
  | ["lex", file] => do
    let text ← IO.FS.readFile file
    pure (" ".intercalate ((lexStream text.toList).map Token.show))
  | ["fmttokens", dumpFile, textFile] => do
    pure (runLineFmtTokens (← IO.FS.readFile dumpFile) (← IO.FS.readFile textFile))
  | ["fmt", dumpFile, w, i] => do
    pure (Sexp.quote (runLineFmt (← IO.FS.readFile dumpFile) w.toNat! i.toInt!))
  | _ => pure "ERR unknown"

partial def loop (h : IO.FS.Stream) (out : IO.FS.Stream) : IO Unit := do
  let line ← h.getLine
  if line.isEmpty then return ()
  let reply ← try dispatch line catch e => pure s!"ERR io {e}"
  out.putStrLn reply
  out.flush
  loop h out

def main : IO Unit := do
  loop (← IO.getStdin) (← IO.getStdout)
