#!/usr/bin/env python3
"""mutate_lin.py <indir> <outdir> <seed>: ill-formed variants of linear programs (panic paths)"""
import sys, os, glob, random, re
ind, out, seed = sys.argv[1], sys.argv[2], int(sys.argv[3])
os.makedirs(out, exist_ok=True)
r = random.Random(seed)
for f in sorted(glob.glob(ind + '/*.s5')):
    s = open(f).read()
    if len(s) > 30000: continue
    kind = r.randint(0, 6)
    if kind == 0:   # change a variable id somewhere
        ms = list(re.finditer(r'\(id "[a-z]+" (\d+)\)', s))
        m = r.choice(ms)
        s = s[:m.start(1)] + str(int(m.group(1)) + r.choice([1, 1000])) + s[m.end(1):]
    elif kind == 1:  # rename an xtor at a use site
        ms = list(re.finditer(r'\(id "(Cons|Nil|Ret|apply|Tup|Some|get|add)" 0\)', s))
        m = r.choice(ms)
        s = s[:m.start(1)] + 'Zzz' + s[m.end(1):]
    elif kind == 2:  # closure environment not annotated
        ms = list(re.finditer(r'\(create \(id "[a-z]+" \d+\) \(ty \(id "[^"]+" 0\)\) (\(ctx[^()]*(?:\([^()]*(?:\([^()]*(?:\([^()]*\)[^()]*)*\)[^()]*)*\)[^()]*)*\))', s))
        if ms:
            m = r.choice(ms)
            s = s[:m.start(1)] + 'none' + s[m.end(1):]
    elif kind == 3:  # type name unknown at a use
        ms = list(re.finditer(r'\(ty \(id "(Opt|_Cont|Obj)" 0\)\)', s))
        if ms:
            m = r.choice(ms)
            s = s[:m.start(1)] + 'Nope' + s[m.end(1):]
    elif kind == 4:  # drop a pair of a substitution
        ms = list(re.finditer(r'\(pair \(b \(id "[a-z]+" \d+\) [a-z]+ (?:i64|\(ty \(id "[^"]+" 0\)\))\) \(id "[a-z]+" \d+\)\) ', s))
        if ms:
            m = r.choice(ms)
            s = s[:m.start()] + s[m.end():]
    elif kind == 5:  # duplicate a pair of a substitution (same new variable twice)
        ms = list(re.finditer(r'\(pair \(b \(id "[a-z]+" \d+\) ext i64\) \(id "[a-z]+" \d+\)\) ', s))
        if ms:
            m = r.choice(ms)
            s = s[:m.start()] + m.group(0) + s[m.start():]
    elif kind == 6:  # i64 as the type of a switch / invoke
        ms = list(re.finditer(r'\((?:switch|invoke) \(id "[a-z]+" \d+\) (?:\(id "[A-Za-z]+" 0\) )?(\(ty \(id "[^"]+" 0\)\))', s))
        if ms:
            m = r.choice(ms)
            s = s[:m.start(1)] + 'i64' + s[m.end(1):]
    open(os.path.join(out, os.path.basename(f).replace('.s5', '_m%d.s5' % kind)), 'w').write(s)
