#!/usr/bin/env python3
"""gen_fun.py — seeded, type-directed generator of well-typed, terminating Fun programs.

CLI:  gen_fun.py <seed> <n> <outdir> [--profile P]     writes <outdir>/g<seed>_<i>.sc and .args
Profiles: mixed (default) | sequenced | effects | shadow | live | bigobj | arith
Every random choice derives from (seed, index).  Programs terminate by construction: definitions
only call earlier definitions, except for self-recursion on a reserved, strictly decreasing
counter parameter guarded by `if n <= 0`; codata is productive (corecursion only under `new`).
Division only by non-zero literals other than -1.
In the `sequenced` profile (and by default) arguments of calls / constructors / destructors /
operators and codata-typed bound terms are pure (variables, literals, operators, constructors, new):
the fragment on which the independent Fun semantics is the reference (property C02).
"""
import random
import sys

I64 = ("i64",)


def T(name, *args):
    return ("T", name, tuple(args))


def show_ty(t):
    if t == I64:
        return "i64"
    if t[2]:
        return "%s[%s]" % (t[1], ", ".join(show_ty(a) for a in t[2]))
    return t[1]


# ---- declaration templates: name -> (kind, params, xtors) ; xtor = (name, [(argname, ty)], ret_ty|None)
def A(n):
    return ("P", n)  # type parameter


LIB = {
    "List": ("data", ["A"], [("Nil", [], None), ("Cons", [("x", A("A")), ("xs", ("T", "List", (A("A"),)))], None)]),
    "Pair": ("data", ["A", "B"], [("Tup", [("a", A("A")), ("b", A("B"))], None)]),
    "Option": ("data", ["A"], [("None", [], None), ("Some", [("v", A("A"))], None)]),
    "Tree": ("data", [], [("Leaf", [("v", I64)], None), ("Node", [("l", T("Tree")), ("r", T("Tree"))], None)]),
    "Fun": ("codata", ["A", "B"], [("apply", [("x", A("A"))], A("B"))]),
    "Stream": ("codata", ["A"], [("head", [], A("A")), ("tail", [], ("T", "Stream", (A("A"),)))]),
    "LPair": ("codata", ["A", "B"], [("fst", [], A("A")), ("snd", [], A("B"))]),
}


def subst_ty(t, m):
    if t == I64:
        return t
    if t[0] == "P":
        return m[t[1]]
    return ("T", t[1], tuple(subst_ty(a, m) for a in t[2]))


class G:
    def __init__(self, seed, index, profile):
        self.r = random.Random(seed * 1000003 + index)
        self.profile = profile
        self.decls = dict(LIB)
        self.sequenced = profile in ("mixed", "sequenced", "shadow", "live", "bigobj", "arith") and not (
            profile == "mixed" and self.r.random() < 0.25
        )
        self.defs = []  # (name, params[(name, chi, ty)], ret, body_text, fuel_param or None)
        self.fresh = 0
        self.used_types = set()
        self.mks = {}
        self.pool = ["x", "y", "z", "n0", "m", "a0", "x0", "acc", "xs", "v", "w", "p", "q", "k1"]
        self.make_decls()

    # ---------------------------------------------------------------- declarations
    def make_decls(self):
        r = self.r
        nenum = r.randint(2, 6)
        self.decls["Color"] = ("data", [], [("C%d" % i, [], None) for i in range(nenum)])
        nf = r.randint(4, 8) if self.profile in ("bigobj", "mixed") else r.randint(1, 4)
        simple = [I64, T("Color"), T("List", I64), T("Tree")]
        self.decls["Big"] = (
            "data",
            [],
            [
                ("Mk", [("f%d" % i, r.choice(simple)) for i in range(nf)], None),
                ("Small", [("g", I64)], None),
            ],
        )
        nd = r.randint(1, 4)
        dt = []
        for i in range(nd):
            na = r.randint(0, 3)
            dt.append(("m%d" % i, [("p%d" % j, r.choice([I64, I64, T("List", I64), T("Color")])) for j in range(na)], r.choice([I64, I64, T("List", I64)])))
        self.decls["Obj"] = ("codata", [], dt)

    def xtors(self, ty):
        kind, params, xs = self.decls[ty[1]]
        m = dict(zip(params, ty[2]))
        return kind, [(n, [(an, subst_ty(at, m)) for an, at in args], None if rt is None else subst_ty(rt, m)) for n, args, rt in xs]

    def is_codata(self, ty):
        return ty != I64 and self.decls[ty[1]][0] == "codata"

    def mark(self, ty):
        if ty != I64:
            self.used_types.add(ty[1])
            for a in ty[2]:
                self.mark(a)

    def some_type(self, allow_codata=True, depth=1):
        r = self.r
        c = r.random()
        if c < 0.45 or depth <= 0:
            return I64
        names = ["List", "Pair", "Option", "Tree", "Color", "Big"]
        if allow_codata:
            names += ["Fun", "Stream", "LPair", "Obj"]
        n = r.choice(names)
        kind, params, _ = self.decls[n]
        return ("T", n, tuple(self.some_type(False, depth - 1) if r.random() < 0.35 else I64 for _ in params))

    # ---------------------------------------------------------------- names
    def name(self, ctx, avoid=()):
        r = self.r
        shadowp = 0.6 if self.profile == "shadow" else 0.2
        if ctx and r.random() < shadowp:
            cands = [v for v, c, t in ctx if v not in avoid]
            if cands:
                return r.choice(cands)
        for _ in range(10):
            n = r.choice(self.pool)
            if n not in avoid:
                return n
        self.fresh += 1
        return "t%d" % self.fresh

    def label_name(self, ctx, avoid=()):
        # covariables live in the same namespace as variables in a context
        return self.name(ctx, avoid)

    # ---------------------------------------------------------------- terms
    # positions: 0 = Term (anything), 3 = Term3 (no print), 2 = Term2, 1 = Term1
    def paren(self, s, level, pos):
        """level of the produced term (4 = Term incl. print, 3, 2, 1) vs required pos"""
        need = {0: 4, 3: 3, 2: 2, 1: 1}[pos]
        return s if level <= need else "(" + s + ")"

    def vars_of(self, ctx, ty, chi="prd"):
        # the innermost binding of a name wins
        seen = set()
        out = []
        for v, c, t in reversed(ctx):
            if v in seen:
                continue
            seen.add(v)
            if c == chi and t == ty:
                out.append(v)
        return out

    def lit(self):
        r = self.r
        c = r.random()
        if c < 0.6:
            return r.randint(-9, 20)
        if c < 0.8:
            return r.choice([2**31 - 1, 2**31, -(2**31), -(2**31) - 1, 2**32, 65535, 65536, -65536, 10**9, 10**12])
        if c < 0.9:
            return r.choice([2**63 - 1, -(2**63) + 1, 2**62, -(2**62), 0x0000FFFF0000FFFF, 0x7FFF0000FFFF0000, -0x0001000000010000])
        return r.randint(-(2**40), 2**40)

    def show_lit(self, n):
        return str(n)

    def pure(self, ty, ctx, depth, pos):
        """pure, terminating term of type ty (variables, literals, operators, constructors, new)"""
        r = self.r
        vs = self.vars_of(ctx, ty)
        if ty == I64:
            c = r.random()
            if vs and (c < 0.45 or depth <= 0):
                return r.choice(vs)
            if c < 0.7 or depth <= 0:
                return self.show_lit(self.lit())
            op = r.choice(["+", "-", "*", "+", "-"])
            a = self.pure(I64, ctx, depth - 1, 1)
            b = self.pure(I64, ctx, depth - 1, 1)
            if op == "-" and b.startswith("-"):
                b = "(" + b + ")"
            return self.paren("%s %s %s" % (a, op, b), 3, pos)
        if vs and (r.random() < 0.5 or depth <= 0):
            return r.choice(vs)
        if self.is_codata(ty):
            return self.new(ty, ctx, depth, pos)
        if depth <= 0:
            return self.paren(self.leaf(ty, ctx), 2, pos)
        return self.ctor(ty, ctx, depth, pos, pure=True)

    def ctor(self, ty, ctx, depth, pos, pure):
        r = self.r
        self.mark(ty)
        _, xs = self.xtors(ty)
        if depth <= 0:
            # pick a non-recursive constructor if possible
            base = [x for x in xs if all(at != ty for _, at in x[1])]
            x = r.choice(base or xs)
        else:
            x = r.choice(xs)
        args = []
        for an, at in x[1]:
            args.append(self.arg(at, ctx, depth - 1, pure))
        s = x[0] + ("(" + ", ".join(args) + ")" if args else "")
        return self.paren(s, 2, pos)

    def arg(self, ty, ctx, depth, pure=None):
        """term in argument position"""
        if pure is None:
            pure = self.sequenced
        if pure:
            return self.pure(ty, ctx, max(depth, 0), 0)
        return self.term(ty, ctx, max(depth, 0), 0)

    def mangle(self, ty):
        return show_ty(ty).replace("[", "_").replace("]", "").replace(", ", "_")

    def mk(self, ty):
        """name of a library definition `mk_T(s: i64): T` producing a (productive) codata value"""
        name = "mk_" + self.mangle(ty)
        if name in self.mks:
            return name
        self.mks[name] = None
        self.mark(ty)
        _, xs = self.xtors(ty)
        cls = []
        for dn, dargs, rt in xs:
            names = ["d%d" % i for i in range(len(dargs))]
            ctx = [("s", "prd", I64)] + [(n, "prd", at) for n, (an, at) in zip(names, dargs)]
            if rt != I64 and self.is_codata(rt):
                body = "%s(s + 1)" % self.mk(rt)
            else:
                body = self.leaf(rt, ctx)
            cls.append("%s%s => %s" % (dn, "(" + ", ".join(names) + ")" if names else "", body))
        self.mks[name] = "def %s(s: i64): %s { new { %s } }" % (name, show_ty(ty), ", ".join(cls))
        return name

    def leaf(self, ty, ctx):
        r = self.r
        self.mark(ty)
        vs = self.vars_of(ctx, ty)
        if vs and r.random() < 0.6:
            return r.choice(vs)
        if ty == I64:
            return self.show_lit(r.randint(-3, 9))
        if self.is_codata(ty):
            return "%s(%d)" % (self.mk(ty), r.randint(0, 3))
        _, xs = self.xtors(ty)
        base = [x for x in xs if all(at != ty for _, at in x[1])]
        x = r.choice(base or xs)
        args = [self.leaf_pure(at, ctx) for an, at in x[1]]
        return x[0] + ("(" + ", ".join(args) + ")" if args else "")

    def leaf_pure(self, ty, ctx):
        """like leaf but syntactically pure (no calls): codata becomes an inline `new`"""
        if ty != I64 and self.is_codata(ty):
            vs = self.vars_of(ctx, ty)
            if vs:
                return self.r.choice(vs)
            return self.new(ty, ctx, 0, 0)
        return self.leaf(ty, ctx)

    def new(self, ty, ctx, depth, pos):
        r = self.r
        self.mark(ty)
        _, xs = self.xtors(ty)
        xs = list(xs)
        r.shuffle(xs)
        cls = []
        for dn, dargs, rt in xs:
            names = []
            c2 = list(ctx)
            for an, at in dargs:
                n = self.name(c2, avoid=names + [self.fuel] if self.fuel else names)
                names.append(n)
                c2.append((n, "prd", at))
            if depth <= 0:
                body = self.leaf(rt, c2)
            else:
                body = self.term(rt, c2, depth - 1, 0)
            cls.append("%s%s => %s" % (dn, "(" + ", ".join(names) + ")" if names else "", body))
        return self.paren("new { " + ", ".join(cls) + " }", 2, pos)

    def tyargs(self, ty):
        return "[" + ", ".join(show_ty(a) for a in ty[2]) + "]" if ty[2] else ""

    def term(self, ty, ctx, depth, pos):
        r = self.r
        self.mark(ty)
        if depth <= 0:
            return self.pure(ty, ctx, 0, pos)
        choices = ["pure", "pure", "let", "if", "case", "dtor", "call", "label", "print"]
        if self.profile == "shadow":
            choices += ["capture", "capture", "capture"]
        elif r.random() < 0.15:
            choices.append("capture")
        if self.profile == "effects":
            choices += ["print", "print", "exit", "label", "call"]
        if self.profile == "arith":
            choices += ["pure", "div", "div", "if"]
        if ty == I64:
            choices += ["div", "opcall"]
        if r.random() < 0.03:
            choices.append("exit")
        c = r.choice(choices)
        if c == "capture":
            # exercise the capture guard of fun2core: an inner binder re-uses the name of an OUTER
            # variable that is still needed by the continuation, with a different type
            outers = []
            seen = set()
            for v, ch, t in reversed(ctx):
                if v in seen or v == self.fuel:
                    continue
                seen.add(v)
                if ch == "prd":
                    outers.append((v, t))
            if not outers:
                return self.pure(ty, ctx, depth, pos)
            ov, ot = r.choice(outers)
            it = self.some_type(allow_codata=not self.sequenced)
            while it == ot:
                it = r.choice([I64, T("List", I64), T("Color"), T("Option", I64), T("Tree")])
            self.mark(it)
            self.mark(ot)
            bty = self.some_type(allow_codata=False)
            self.mark(bty)
            inner_bound = self.pure(it, ctx, 1, 3)
            if r.random() < 0.5 or it == I64 or self.is_codata(it):
                # let-bound term is itself a let that shadows ov
                inner = "let %s: %s = %s; %s" % (ov, show_ty(it), inner_bound, self.term(bty, ctx + [(ov, "prd", it)], depth - 1, 0))
            else:
                # a case whose clause binders shadow ov
                _, xs = self.xtors(it)
                cls = []
                for cn, cargs, _ in xs:
                    names = []
                    c2 = list(ctx)
                    for k, (an, at) in enumerate(cargs):
                        n = ov if k == 0 else self.name(c2, avoid=names + [ov] + ([self.fuel] if self.fuel else []))
                        names.append(n)
                        c2.append((n, "prd", at))
                    cls.append("%s%s => %s" % (cn, "(" + ", ".join(names) + ")" if names else "", self.term(bty, c2, depth - 1, 0)))
                inner = "(%s).case%s { %s }" % (inner_bound, self.tyargs(it), ", ".join(cls))
            y = self.name(ctx, avoid=[ov] + ([self.fuel] if self.fuel else []))
            if y == ov:
                y = "cy"
            c2 = ctx + [(y, "prd", bty)]
            keep = "let keep%d: %s = %s; " % (depth, show_ty(ot), ov)
            body = self.term(ty, c2 + [("keep%d" % depth, "prd", ot)], depth - 1, 0)
            return self.paren("let %s: %s = %s; %s%s" % (y, show_ty(bty), self.paren(inner, 3, 3) if inner.startswith("let") else inner, keep, body), 3, pos)
        if c == "pure":
            return self.pure(ty, ctx, depth, pos)
        if c == "let":
            bty = self.some_type()
            self.mark(bty)
            if self.is_codata(bty) and self.sequenced:
                bound = self.pure(bty, ctx, depth - 1, 3)
            else:
                bound = self.term(bty, ctx, depth - 1, 3)
            avoid = [self.fuel] if self.fuel else []
            n = self.name(ctx, avoid)
            body = self.term(ty, ctx + [(n, "prd", bty)], depth - 1, 0)
            return self.paren("let %s: %s = %s; %s" % (n, show_ty(bty), bound, body), 3, pos)
        if c == "if":
            a = self.arg_term2(I64, ctx, depth - 1)
            sort = r.choice(["==", "!=", "<", "<=", ">", ">="])
            t1 = self.term(ty, ctx, depth - 1, 0)
            t2 = self.term(ty, ctx, depth - 1, 0)
            z = r.random()
            if z < 0.3:
                cond = "%s %s 0" % (a, sort)
            elif z < 0.4:
                cond = "0 %s %s" % (sort, a)
            else:
                b = self.arg_term2(I64, ctx, depth - 1)
                if b == "0" or b.startswith("0 "):
                    b = "(" + b + ")"
                cond = "%s %s %s" % (a, sort, b)
            return self.paren("if %s { %s } else { %s }" % (cond, t1, t2), 3, pos)
        if c == "case":
            dts = [v for v, ch, t in ctx if ch == "prd" and t != I64 and not self.is_codata(t)]
            sty = None
            if dts and r.random() < 0.7:
                v = r.choice(dts)
                sty = [t for vv, ch, t in reversed(ctx) if vv == v][0]
                if sty == I64 or self.is_codata(sty):
                    sty = None
                else:
                    scrut = v
            if sty is None:
                sty = r.choice([T("List", I64), T("Option", I64), T("Color"), T("Tree"), T("Pair", I64, I64), T("Big")])
                scrut = self.pure(sty, ctx, depth - 1, 2) if self.sequenced else self.term(sty, ctx, depth - 1, 2)
            self.mark(sty)
            _, xs = self.xtors(sty)
            xs = list(xs)
            r.shuffle(xs)
            cls = []
            for cn, cargs, _ in xs:
                names = []
                c2 = list(ctx)
                for an, at in cargs:
                    n = self.name(c2, avoid=names + ([self.fuel] if self.fuel else []))
                    names.append(n)
                    c2.append((n, "prd", at))
                cls.append("%s%s => %s" % (cn, "(" + ", ".join(names) + ")" if names else "", self.term(ty, c2, depth - 1, 0)))
            return self.paren("%s.case%s { %s }" % (scrut, self.tyargs(sty), ", ".join(cls)), 2, pos)
        if c == "dtor":
            cands = []
            seen = set()
            for v, ch, t in reversed(ctx):
                if v in seen:
                    continue
                seen.add(v)
                if ch == "prd" and t != I64 and self.is_codata(t):
                    for dn, dargs, rt in self.xtors(t)[1]:
                        if rt == ty:
                            cands.append((v, t, dn, dargs))
            if not cands:
                return self.pure(ty, ctx, depth, pos)
            v, t, dn, dargs = r.choice(cands)
            args = [self.arg(at, ctx, depth - 1) for an, at in dargs]
            return self.paren("%s.%s%s%s" % (v, dn, self.tyargs(t), "(" + ", ".join(args) + ")" if args else ""), 2, pos)
        if c in ("call", "opcall"):
            cands = [d for d in self.defs if d[2] == ty and all(ch == "prd" for _, ch, _ in d[1])]
            if not cands:
                return self.pure(ty, ctx, depth, pos)
            d = r.choice(cands)
            args = []
            for pn, ch, pt in d[1]:
                if d[4] == pn:
                    args.append(str(r.randint(0, 4)))
                else:
                    args.append(self.arg(pt, ctx, depth - 1))
            call = "%s(%s)" % (d[0], ", ".join(args))
            if c == "opcall":
                return self.paren("%s %s %s" % (call, r.choice(["+", "*", "-"]), self.pure(I64, ctx, 0, 1)), 3, pos)
            return call
        if c == "div":
            if ty != I64:
                return self.pure(ty, ctx, depth, pos)
            a = self.pure(I64, ctx, depth - 1, 1)
            d = r.choice([1, 2, 3, 5, 7, 10, -3, 1000, 2**31, -(2**33)])
            ds = str(d) if d > 0 else "(%d)" % d
            return self.paren("%s %s %s" % (a, r.choice(["/", "%"]), ds), 3, pos)
        if c == "label":
            avoid = [self.fuel] if self.fuel else []
            a = self.label_name(ctx, avoid)
            c2 = ctx + [(a, "cns", ty)]
            # body either jumps or falls through
            if r.random() < 0.6:
                inner = self.term_with_goto(ty, c2, depth - 1, a)
            else:
                inner = self.term(ty, c2, depth - 1, 0)
            return self.paren("label %s { %s }" % (a, inner), 3, pos)
        if c == "print":
            a = self.arg(I64, ctx, depth - 1)
            nxt = self.term(ty, ctx, depth - 1, 0)
            return self.paren("%s(%s); %s" % (r.choice(["print_i64", "println_i64"]), a, nxt), 4, pos)
        if c == "exit":
            return self.paren("exit %s" % self.pure(I64, ctx, 1, 0), 3, pos)
        return self.pure(ty, ctx, depth, pos)

    def arg_term2(self, ty, ctx, depth):
        """operand of a comparison: any Term syntactically, keep it simple (Term1-ish)"""
        if self.sequenced or self.r.random() < 0.7:
            return self.pure(ty, ctx, min(depth, 1), 1)
        return self.term(ty, ctx, depth, 1)

    def term_with_goto(self, ty, ctx, depth, a):
        r = self.r
        # find the covariable's type
        cty = [t for v, ch, t in reversed(ctx) if v == a and ch == "cns"][0]
        g = "goto %s (%s)" % (a, self.arg(cty, ctx, depth - 1))
        c = r.random()
        if c < 0.4:
            cond = "%s %s %s" % (self.pure(I64, ctx, 0, 1), r.choice(["<", "==", "!="]), self.pure(I64, ctx, 1, 1).replace("0 ", "(0) ") if False else self.nonzero_start(self.pure(I64, ctx, 1, 1)))
            other = self.term(ty, ctx, depth - 1, 0)
            if r.random() < 0.5:
                return "if %s { %s } else { %s }" % (cond, g, other)
            return "if %s { %s } else { %s }" % (cond, other, g)
        if c < 0.6:
            # goto out of a nested binder
            n = self.name(ctx, [a] + ([self.fuel] if self.fuel else []))
            return "let %s: i64 = %s; %s" % (n, self.pure(I64, ctx, 1, 3), "goto %s (%s)" % (a, self.arg(cty, ctx + [(n, "prd", I64)], depth - 1)))
        if c < 0.8 and ty == I64:
            # goto inside an operand: the rest of the operation is discarded
            return "(%s) + %s" % (g, self.pure(I64, ctx, 0, 1)) if not self.sequenced else g
        return g

    def nonzero_start(self, s):
        return "(" + s + ")" if s == "0" or s.startswith("0 ") else s

    # ---------------------------------------------------------------- definitions
    def make_def(self, idx):
        r = self.r
        name = r.choice(["f", "g", "h", "go", "loop", "aux", "share_f_0", "lift_main_", "lab1", "cleanup1", "asm_main1"]) + str(idx)
        if r.random() < 0.1:
            name = r.choice(["share_main_0", "lift_f0_", "x0", "a0"]) + str(idx)
        ret = self.some_type()
        self.mark(ret)
        nparams = r.randint(0, 5)
        if self.profile == "live":
            nparams = r.randint(4, 8)
        params = []
        names = set()
        recursive = r.random() < 0.6
        self.fuel = None
        if recursive:
            self.fuel = "n"
            params.append(("n", "prd", I64))
            names.add("n")
        for _ in range(nparams):
            pn = self.name([], avoid=list(names) + ["n"])
            if pn in names:
                continue
            names.add(pn)
            pt = self.some_type()
            self.mark(pt)
            params.append((pn, "prd", pt))
        ctx = list(params)
        depth = r.randint(2, 4)
        if recursive:
            base = self.term(ret, ctx, depth - 1, 0)
            # step: bind the recursive result, then use it
            rec_args = []
            for pn, ch, pt in params:
                if pn == "n":
                    rec_args.append("n - 1")
                else:
                    rec_args.append(self.arg(pt, ctx, 1))
            rec = "%s(%s)" % (name, ", ".join(rec_args))
            rn = "rec"
            step_body = self.term(ret, ctx + [(rn, "prd", ret)], depth - 1, 0)
            if self.is_codata(ret) and self.sequenced:
                # codata-typed binding must be pure in the sequenced fragment: return the call directly
                step = rec
            else:
                step = "let %s: %s = %s; %s" % (rn, show_ty(ret), rec, step_body)
            body = "if n <= 0 { %s } else { %s }" % (base, step)
        else:
            body = self.term(ret, ctx, depth, 0)
        if self.profile == "live" and ret == I64:
            # many simultaneously live variables: bind k values, then use all of them
            k = r.randint(6, 24)
            lets = []
            c2 = list(ctx)
            vs = []
            for i in range(k):
                v = "l%d" % i
                lets.append("let %s: i64 = %s;" % (v, self.pure(I64, c2, 1, 3)))
                c2.append((v, "prd", I64))
                vs.append(v)
            pr = "println_i64(%s); " % vs[0] if r.random() < 0.7 else ""
            total = vs[0]
            for v in vs[1:]:
                total = "(%s + %s)" % (total, v)
            body = " ".join(lets) + " " + pr + "let s: i64 = %s; %s" % (total, "s + (%s)" % self.paren(body, 3, 1) if False else "s")
            if recursive:
                body = "if n <= 0 { 0 } else { %s }" % body
        self.defs.append((name, params, ret, body, self.fuel))
        self.fuel = None

    def make_main(self):
        r = self.r
        nargs = r.randint(0, 5) if self.profile != "live" else r.randint(2, 5)
        params = [("arg%d" % i, "prd", I64) for i in range(nargs)]
        ctx = list(params)
        self.fuel = None
        parts = []
        # call some definitions and print their integer results
        k = 0
        for d in self.defs:
            if not all(ch == "prd" for _, ch, _ in d[1]):
                continue
            args = []
            for pn, ch, pt in d[1]:
                if d[4] == pn:
                    args.append(str(r.randint(0, 5)))
                else:
                    args.append(self.pure(pt, ctx, 2, 0))
            call = "%s(%s)" % (d[0], ", ".join(args))
            v = "r%d" % k
            k += 1
            if self.is_codata(d[2]) and self.sequenced:
                continue
            parts.append("let %s: %s = %s;" % (v, show_ty(d[2]), call))
            ctx.append((v, "prd", d[2]))
            if d[2] == I64:
                parts.append("println_i64(%s);" % v)
            elif not self.is_codata(d[2]):
                parts.append("println_i64(%s);" % self.consume(d[2], v, ctx, 2))
        for p in params:
            if r.random() < 0.7:
                parts.append("print_i64(%s);" % p[0])
                parts.append("println_i64(%s);" % self.pure(I64, ctx, 1, 0))
        res = self.pure(I64, ctx, 2, 0)
        self.defs.append(("main", params, I64, " ".join(parts) + " " + res, None))
        return nargs

    def consume(self, ty, v, ctx, depth):
        """an i64-valued pure-ish observation of a data value (a case expression)"""
        _, xs = self.xtors(ty)
        cls = []
        for i, (cn, cargs, _) in enumerate(xs):
            names = ["c%d" % j for j in range(len(cargs))]
            ints = [n for n, (an, at) in zip(names, cargs) if at == I64]
            inner = str(i + 1)
            for n in ints:
                inner = "(%s + %s)" % (inner, n)
            sub = [(n, at) for n, (an, at) in zip(names, cargs) if at != I64 and not self.is_codata(at)]
            if sub and depth > 0:
                n, at = sub[0]
                inner = "(%s) + (%s)" % (inner, self.consume(at, n, ctx, depth - 1))
            cls.append("%s%s => %s" % (cn, "(" + ", ".join(names) + ")" if names else "", inner))
        return "%s.case%s { %s }" % (v, self.tyargs(ty), ", ".join(cls))

    def render(self):
        r = self.r
        ndefs = r.randint(1, 5)
        for i in range(ndefs):
            self.make_def(i)
        nargs = self.make_main()
        out = []
        # declarations actually used (plus dependencies)
        need = set()

        def dep(n):
            if n in need:
                return
            need.add(n)
            for xn, args, rt in self.decls[n][2]:
                for an, at in args:
                    walk(at)
                if rt is not None:
                    walk(rt)

        def walk(t):
            if t == I64 or t[0] == "P":
                return
            dep(t[1])
            for a in t[2]:
                walk(a)

        for n in sorted(self.used_types):
            dep(n)
        for n in sorted(need):
            kind, params, xs = self.decls[n]
            ps = "[" + ", ".join(params) + "]" if params else ""

            def sty(t):
                if t == I64:
                    return "i64"
                if t[0] == "P":
                    return t[1]
                return t[1] + ("[" + ", ".join(sty(a) for a in t[2]) + "]" if t[2] else "")

            items = []
            for xn, args, rt in xs:
                a = "(" + ", ".join("%s: %s" % (an, sty(at)) for an, at in args) + ")" if args else ""
                items.append(xn + a + ("" if rt is None else ": " + sty(rt)))
            out.append("%s %s%s { %s }" % (kind, n, ps, ", ".join(items)))
        for k in sorted(self.mks):
            out.append(self.mks[k])
        for name, params, ret, body, fuel in self.defs:
            ps = ", ".join("%s%s %s" % (pn, ":" if ch == "prd" else ":cns", show_ty(pt)) for pn, ch, pt in params)
            out.append("def %s(%s): %s { %s }" % (name, ps, show_ty(ret), body))
        args = [self.r.choice([0, 1, -1, 2, 7, 100, -100, 2**31, -(2**31) - 1, 2**40, 2**63 - 1, -(2**63)]) for _ in range(nargs)]
        return "\n".join(out) + "\n", args


def generate(seed, index, profile):
    g = G(seed, index, profile)
    g.fuel = None
    return g.render() + (g.sequenced,)


PROFILES = ["mixed", "sequenced", "effects", "shadow", "live", "bigobj", "arith"]


def main():
    seed = int(sys.argv[1])
    n = int(sys.argv[2])
    outdir = sys.argv[3]
    profile = None
    if "--profile" in sys.argv:
        profile = sys.argv[sys.argv.index("--profile") + 1]
    import os

    os.makedirs(outdir, exist_ok=True)
    for i in range(n):
        p = profile or PROFILES[i % len(PROFILES)]
        text, args, seq = generate(seed, i, p)
        base = os.path.join(outdir, "g%d_%d" % (seed, i))
        open(base + ".sc", "w").write(text)
        open(base + ".args", "w").write(" ".join(str(a) for a in args) + "\n" + ("sequenced" if seq else "unsequenced") + " " + p + "\n")


if __name__ == "__main__":
    main()
