#!/usr/bin/env python3
"""Generator of print-free, well-typed, terminating NON-linear AxCut programs as `(axprog ...)`
S-expressions (the harness command `axcut <file>` linearizes them with the real linearizer).
usage: axgen.py <outdir> <count> <seed> [maxscope]
Each program <outdir>/p<i>.sexp gets <outdir>/p<i>.args (one argument tuple per line, comma separated)."""
import random, sys, os

I64 = 'i64'
def q(s): return '"' + s + '"'
def ident(name, i=0): return f'(id {q(name)} {i})'

class Var:
    def __init__(self, name, i, chi, ty): self.name, self.id, self.chi, self.ty = name, i, chi, ty
    def sx(self): return ident(self.name, self.id)
    def b(self): return f'(b {self.sx()} {self.chi} {tysx(self.ty)})'

def tysx(ty): return 'i64' if ty == I64 else f'(ty {ident(ty)})'
def ctxsx(vs): return '(ctx' + ''.join(' ' + v.b() for v in vs) + ')'

LITS = [0, 1, -1, 2, 3, 7, -5, 10, 100, 255, 256, 4095, 4096, -4096, 2047, 2048, -2048, -2049, 65535, 65536,
        0x7fffffff, 0x80000000, -0x80000000, -0x80000001, 0xffffffff, 0x100000000, 0xffff0000ffff,
        0x1234567890abcdef, -0x1234567890abcdef, 0x7fffffffffffffff, -0x8000000000000000,
        0x7fffffffffff0000, -0x7fffffffffffffff, 0xffff00000000, 0x0000ffff0000ffff]
OPS = ['+', '-', '*', '/', '%']
SORTS = ['eq', 'ne', 'lt', 'le', 'gt', 'ge']

class Gen:
    def __init__(self, rng, maxscope):
        self.r = rng; self.next_id = 1; self.maxscope = maxscope
        self.types = {}      # name -> list of (xtor, [(fieldname, chi, ty)])
        self.kind = {}       # name -> 'data' | 'codata'
        self.defs = []       # (name, params, body)
        self.sigs = []       # (name, [(chi, ty)])
    def fresh(self, chi, ty, name='v'):
        v = Var(name, self.next_id, chi, ty); self.next_id += 1; return v
    # ---- types
    def mk_types(self):
        r = self.r
        nd = r.randint(1, 3); nc = r.randint(1, 2)
        names = [f'D{i}' for i in range(nd)] + [f'C{i}' for i in range(nc)]
        for n in names: self.kind[n] = 'data' if n[0] == 'D' else 'codata'
        def field_ty():
            x = r.random()
            if x < 0.6: return ('ext', I64)
            n = r.choice(names)
            return ('prd' if self.kind[n] == 'data' else 'cns', n)
        for n in names:
            k = r.randint(1, 4)
            xt = []
            for j in range(k):
                nf = r.choice([0, 1, 2, 2, 3, 3, 4, 5, 6, 7, 8])
                if self.kind[n] == 'data' and j == 0: nf = 0     # a nullary constructor: always constructible
                if self.kind[n] == 'codata': nf = r.choice([0, 1, 1, 2, 3])
                fs = [(f'f{m}',) + field_ty() for m in range(nf)]
                xt.append((f'{"K" if self.kind[n]=="data" else "M"}{n}{j}', fs))
            self.types[n] = xt
    def types_sx(self):
        out = []
        for n, xt in self.types.items():
            xs = ''.join(' (xtor %s (ctx%s))' % (ident(x), ''.join(f' (b {ident(fn)} {chi} {tysx(ty)})' for fn, chi, ty in fs)) for x, fs in xt)
            out.append(f'(type {ident(n)}{xs})')
        return '(types ' + ' '.join(out) + ')'
    # ---- statements
    def pick(self, scope, chi, ty):
        c = [v for v in scope if v.chi == chi and v.ty == ty]
        return self.r.choice(c) if c else None
    def trim(self, scope):
        scope = list(scope)
        while len(scope) > self.maxscope:
            scope.pop(self.r.randrange(len(scope)))
        return scope
    def ensure(self, scope, chi, ty, k):
        """statement prefix making a variable of (chi, ty) available: returns (var, wrap) where wrap(body_sx)"""
        v = self.pick(scope, chi, ty)
        if v is not None and self.r.random() < 0.85: return v, (lambda s: s), scope
        if ty == I64:
            nv = self.fresh('ext', I64, 'x'); n = self.r.choice(LITS)
            return nv, (lambda s, nv=nv, n=n: f'(lit {nv.sx()} {n} {s} none)'), scope + [nv]
        if self.kind[ty] == 'data':
            xt = self.types[ty]
            x, fs = xt[0] if k <= 0 else self.r.choice(xt)
            return self.mk_let(scope, ty, x, fs, k - 1)
        # codata: create a closure
        return self.mk_create(scope, ty, k - 1)
    def mk_let(self, scope, ty, x, fs, k):
        wraps = []; args = []
        for fn, chi, fty in fs:
            a, w, scope = self.ensure(scope, chi, fty, k - 1)
            wraps.append(w); args.append(a)
        nv = self.fresh('prd', ty, 'o')
        def wrap(s, nv=nv, args=args, wraps=wraps):
            s = f'(let {nv.sx()} {tysx(ty)} {ident(x)} {ctxsx(args)} {s} none)'
            for w in reversed(wraps): s = w(s)
            return s
        return nv, wrap, scope + [nv]
    def mk_create(self, scope, ty, k):
        nv = self.fresh('cns', ty, 'c')
        cl = []
        for x, fs in self.types[ty]:
            bs = [self.fresh(chi, fty, 'a') for fn, chi, fty in fs]
            body = self.stmt(self.trim(scope + bs), k)
            cl.append(f'(clause {ident(x)} {ctxsx(bs)} {body})')
        def wrap(s, nv=nv, cl=cl):
            return f'(create {nv.sx()} {tysx(ty)} none (clauses {" ".join(cl)}) {s} none none)'
        return nv, wrap, scope + [nv]
    def terminal(self, scope, k):
        r = self.r
        choices = ['exit']
        kk = min(k, 0) - 1
        if kk > -4:
            if any(v.chi == 'cns' for v in scope): choices += ['invoke'] * 3
            if self.callable: choices += ['call'] * 2
        c = r.choice(choices)
        if c == 'invoke':
            v = r.choice([v for v in scope if v.chi == 'cns'])
            x, fs = r.choice(self.types[v.ty])
            wraps = []; args = []
            for fn, chi, fty in fs:
                a, w, scope = self.ensure(scope, chi, fty, kk)
                wraps.append(w); args.append(a)
            s = f'(invoke {v.sx()} {ident(x)} {tysx(v.ty)} {ctxsx(args)})'
            for w in reversed(wraps): s = w(s)
            return s
        if c == 'call':
            name, ps = r.choice(self.callable)
            wraps = []; args = []
            for chi, ty in ps:
                a, w, scope = self.ensure(scope, chi, ty, kk)
                wraps.append(w); args.append(a)
            s = f'(call {ident(name)} {ctxsx(args)})'
            for w in reversed(wraps): s = w(s)
            return s
        a, w, scope = self.ensure(scope, 'ext', I64, 0)
        return w(f'(exit {a.sx()})')
    def stmt(self, scope, k):
        r = self.r
        scope = self.trim(scope)
        if k <= 0: return self.terminal(scope, k)
        c = r.choice(['lit', 'op', 'op', 'op', 'ifc', 'ifc', 'let', 'let', 'switch', 'switch', 'create', 'term'])
        if c == 'lit':
            nv = self.fresh('ext', I64, 'x')
            return f'(lit {nv.sx()} {r.choice(LITS)} {self.stmt(scope + [nv], k - 1)} none)'
        if c == 'op':
            o = r.choice(OPS)
            a, w1, scope = self.ensure(scope, 'ext', I64, 0)
            if o in '/%':
                b = self.fresh('ext', I64, 'd'); n = r.choice([x for x in LITS if x not in (0, -1)])
                w2 = (lambda s, b=b, n=n: f'(lit {b.sx()} {n} {s} none)'); scope = scope + [b]
            else:
                b, w2, scope = self.ensure(scope, 'ext', I64, 0)
            nv = self.fresh('ext', I64, 'r')
            return w1(w2(f'(op {nv.sx()} {a.sx()} {o} {b.sx()} {self.stmt(scope + [nv], k - 1)} none)'))
        if c == 'ifc':
            a, w1, scope = self.ensure(scope, 'ext', I64, 0)
            if r.random() < 0.4: b = None; w2 = lambda s: s
            else: b, w2, scope = self.ensure(scope, 'ext', I64, 0)
            t = self.stmt(scope, k - 1); e = self.stmt(scope, k - 2)
            return w1(w2(f'(ifc {r.choice(SORTS)} {a.sx()} {b.sx() if b else "none"} {t} {e})'))
        if c == 'let':
            ds = [n for n in self.types if self.kind[n] == 'data']
            ty = r.choice(ds); x, fs = r.choice(self.types[ty])
            nv, w, scope = self.mk_let(scope, ty, x, fs, 1)
            return w(self.stmt(scope, k - 1))
        if c == 'create':
            cs = [n for n in self.types if self.kind[n] == 'codata']
            nv, w, scope = self.mk_create(scope, r.choice(cs), k - 2)
            return w(self.stmt(scope, k - 1))
        if c == 'switch':
            ds = [n for n in self.types if self.kind[n] == 'data']
            ty = r.choice(ds)
            v, w, scope = self.ensure(scope, 'prd', ty, 1)
            rest = scope if r.random() < 0.3 else [u for u in scope if u is not v]
            cl = []
            for x, fs in self.types[ty]:
                bs = [self.fresh(chi, fty, 'y') for fn, chi, fty in fs]
                cl.append(f'(clause {ident(x)} {ctxsx(bs)} {self.stmt(self.trim(rest + bs), k - 1)})')
            return w(f'(switch {v.sx()} {tysx(ty)} (clauses {" ".join(cl)}) none)')
        return self.terminal(scope, k)
    # ---- program
    def program(self):
        r = self.r
        self.mk_types()
        ndefs = r.randint(1, 4)
        alltys = [('ext', I64)] * 4 + [('prd' if self.kind[n] == 'data' else 'cns', n) for n in self.types]
        sigs = []
        for i in range(ndefs):
            if i == 0: ps = [('ext', I64)] * r.randint(0, 5)
            else: ps = [r.choice(alltys) for _ in range(r.choice([0, 1, 2, 3, 4, 6, 8, 11, 13, 14]) if self.maxscope >= 14 else r.randint(0, 4))]
            sigs.append(('main' if i == 0 else f'f{i}', ps))
        bodies = []
        for i in reversed(range(ndefs)):
            self.callable = sigs[i + 1:]
            params = [self.fresh(chi, ty, 'p') for chi, ty in sigs[i][1]]
            body = self.stmt(list(params), r.randint(1, 6))
            bodies.append((sigs[i][0], params, body))
        bodies.reverse()
        defs = ' '.join(f'(def {ident(n)} {ctxsx(ps)} {b})' for n, ps, b in bodies)
        return f'(axprog {self.next_id + 5} {self.types_sx()} (defs {defs}))', len(sigs[0][1])

def main():
    out, count, seed = sys.argv[1], int(sys.argv[2]), int(sys.argv[3])
    maxscope = int(sys.argv[4]) if len(sys.argv) > 4 else 9
    os.makedirs(out, exist_ok=True)
    for i in range(count):
        rng = random.Random(seed * 100003 + i)
        g = Gen(rng, maxscope)
        sx, nargs = g.program()
        open(f'{out}/p{i}.sexp', 'w').write(sx + '\n')
        tuples = []
        for _ in range(3):
            tuples.append(','.join(str(rng.choice(LITS + [4, 5, 6, -2, -3])) for _ in range(nargs)))
        open(f'{out}/p{i}.args', 'w').write('\n'.join(tuples) + '\n')
main()
