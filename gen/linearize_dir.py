#!/usr/bin/env python3
"""lin_ga.py <dir of .sexp (non-linear)> <outdir>: linearize with the harness, write <outdir>/<name>.s5"""
import subprocess, sys, glob, os
H = '/verif/harness/target/debug/scc-harness'
os.makedirs(sys.argv[2], exist_ok=True)
files = sorted(glob.glob(sys.argv[1] + '/*.sexp'))
req = ''.join('axcut %s nocode\n' % f for f in files)
out = subprocess.run([H], input=req, capture_output=True, text=True).stdout.split('\nEND\n')
n = 0
for f, o in zip(files, out):
    for l in o.split('\n'):
        if l.startswith('S5 OK '):
            open(os.path.join(sys.argv[2], os.path.basename(f).replace('.sexp', '.s5')), 'w').write(l[6:] + '\n'); n += 1
print('linearized', n, 'of', len(files))
