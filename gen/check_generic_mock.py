#!/usr/bin/env python3
"""check_generic_mock.py <dir-with-.s5-files> [model-exe]

Tie of Scc/Backend/{Generic,Mock}.lean: for every LINEAR `(axprog …)` dump <f>.s5 in the directory, the
harness reply `S6m` of `axcutlin <f> nocode mock` (the REAL generic axcut2backend::coder::compile with the mock
backend; a fresh harness process per file, so the label counter starts at 0) must equal
`Scc.Backend.runLineMock <text of f> true 0` EXACTLY (text of all abstract instructions, comments and labels
included); if both sides panic, the messages are printed.  The model executable must answer the request line
`mock <file> <hooks 0|1> <counterStart>` with the result of `runLineMock` followed by a line `END`
(default: the scratch driver of the agent; any driver exposing `runLineMock` will do).
Inputs: S5 dumps of the repo programs (harness `stages <f.sc> 5`), /verif/gen/gen_axcut_lin.py (direct generator of
linear programs), /verif/gen/mutate_axcut_lin.py (ill-formed variants: panic paths), /verif/gen/gen_axcut.py + harness
`axcut <f> nocode` (linearized by the real pass)."""
import subprocess, sys, os, glob
H = '/verif/harness/target/debug/scc-harness'
M = sys.argv[2] if len(sys.argv) > 2 else '/tmp/agent_gen/lean/.lake/build/bin/genmodel'

def unq(s):
    assert s[0] == '"' and s[-1] == '"', s[:50]
    out = []; i = 1
    while i < len(s) - 1:
        c = s[i]
        if c == '\\':
            n = s[i+1]; out.append({'n': '\n', 'r': '\r', 't': '\t'}.get(n, n)); i += 2
        else:
            out.append(c); i += 1
    return ''.join(out)

def harness(path, lin=True):
    req = ('axcutlin ' if lin else 'axcut ') + path + ' nocode mock\n'
    r = subprocess.run([H], input=req, capture_output=True, text=True)
    for l in r.stdout.split('\n'):
        if l.startswith('S6m OK '):
            return 'OK ' + unq(l[7:])
        if l.startswith('S6m PANIC '):
            return 'PANIC ' + l[10:]
    return 'NOREPLY rc=%s %s' % (r.returncode, r.stdout[:200])

def model(paths):
    req = ''.join('mock %s 1 0\n' % p for p in paths)
    r = subprocess.run([M], input=req, capture_output=True, text=True)
    replies = r.stdout.split('\nEND\n')
    return replies[:len(paths)]

def main_cmp():
    files = sorted(glob.glob(os.path.join(sys.argv[1], '*.s5')))
    files = [f for f in files if os.path.getsize(f) > 0]
    ms = model(files)
    ok = bad = 0
    for f, m in zip(files, ms):
        h = harness(f)
        if h == m:
            ok += 1
        elif h.startswith('PANIC') and m.startswith('PANIC'):
            ok += 1
            print('both panic', os.path.basename(f), '|', h[:100], '|', m[:100])
        else:
            bad += 1
            print('DIFF', f)
            hl, ml = h.split('\n'), m.split('\n')
            for i, (a, b) in enumerate(zip(hl, ml)):
                if a != b:
                    print('  line', i, 'harness:', a, '| model:', b); break
            else:
                print('  lengths', len(hl), len(ml), hl[-1][:100], ml[-1][:100])
    print('agree', ok, 'differ', bad)
    

if __name__ == '__main__':
    main_cmp()
