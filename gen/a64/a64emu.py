#!/usr/bin/env python3
"""Independent cross-check: assemble the text with llvm-mc (aarch64), then interpret the ENCODINGS.
usage: a64emu.py file.s [args...]  -> OK out=[..] res=done:<v> steps=<n>"""
import subprocess, sys, struct, tempfile, os, re
M=(1<<64)-1
def sx(v,b): return v-(1<<b) if v>>(b-1)&1 else v
def s64(v): return v-(1<<64) if v>>63 else v
def assemble(path):
    o=tempfile.mktemp(suffix='.o'); b=tempfile.mktemp(suffix='.bin')
    r=subprocess.run(['llvm-mc','-triple=aarch64','-filetype=obj',path,'-o',o],capture_output=True,text=True)
    if r.returncode!=0: return None,r.stderr
    subprocess.run(['llvm-objcopy','-O','binary','--only-section=.text',o,b],check=True)
    code=open(b,'rb').read()
    sym=subprocess.run(['llvm-nm',o],capture_output=True,text=True).stdout
    syms={}
    for l in sym.split('\n'):
        p=l.split()
        if len(p)==3: syms[p[2]]=int(p[0],16)
    rel=subprocess.run(['llvm-readelf','-r',o],capture_output=True,text=True).stdout
    relocs={}
    for l in rel.split('\n'):
        p=l.split()
        if len(p)>=5 and re.match(r'^[0-9a-f]+$',p[0]) and 'R_AARCH64' in p[2]:
            relocs[int(p[0],16)]=(p[2],p[4])
    os.unlink(o);os.unlink(b)
    return (code,syms,relocs),None
class Fault(Exception): pass
def run(path,args,fuel=50_000_000):
    a,err=assemble(path)
    if a is None: return 'ASM-ERROR '+err.strip().split('\n')[0]
    code,syms,relocs=a
    CB=0x400000; HB=0x10000000; HS=0x2000000; ST=0x7ff80000; SL=0x7ff00000
    X=[None]*31; X[0]=HB
    for i,v in enumerate(args): X[i+1]=v&M
    for i in range(19,31): X[i]=0xC0DE000000000000+i
    sp=ST; mem={}; flags=None; out=[]; steps=0
    pc=CB+syms['asm_main']
    def rz(r):
        if r==31: return 0
        if X[r] is None: raise Fault(f'read-undefined X{r}')
        return X[r]
    def rs(r):
        nonlocal sp
        if r==31: return sp
        if X[r] is None: raise Fault(f'read-undefined X{r}')
        return X[r]
    def ld(a):
        if a%8: raise Fault('unaligned')
        if HB<=a<HB+HS: return mem.get(a,0)
        if SL<=a<ST: return mem.get(a)      # None = undefined (copied)
        raise Fault(f'oob {a}')
    def st(a,v):
        if a%8: raise Fault('unaligned')
        if HB<=a<HB+HS:
            if v is None: raise Fault('undef to heap')
            mem[a]=v
        elif SL<=a<ST: mem[a]=v
        else: raise Fault(f'oob {a}')
    def base(r):
        if r==31:
            if sp%16: raise Fault('misaligned-sp')
            return sp
        return rz(r) if r!=31 else 0
    try:
      while steps<fuel:
        off=pc-CB
        if off<0 or off+4>len(code) or off%4: raise Fault('jump-to-non-instruction')
        w=struct.unpack_from('<I',code,off)[0]; steps+=1
        rd=w&31; rn=(w>>5)&31; rm=(w>>16)&31; ra=(w>>10)&31
        npc=pc+4
        if (w&0x7f800000)==0x11000000 or (w&0x7f800000)==0x51000000 or (w&0x7f800000)==0x71000000 or (w&0x7f800000)==0x31000000:
            # ADD/SUB (immediate) sf op S 100010 sh imm12
            assert w>>31==1
            op=(w>>30)&1; S=(w>>29)&1; sh=(w>>22)&1; i=(w>>10)&0xfff
            if sh: i<<=12
            a=rs(rn)
            r=(a-i)&M if op else (a+i)&M
            if S:
                assert op==1; flags=(a,i)
                if rd!=31: X[rd]=r
            else:
                if rd==31: sp=r
                else: X[rd]=r
        elif (w&0x1f200000)==0x0b000000:
            # ADD/SUB shifted register
            assert w>>31==1 and ((w>>22)&3)==0 and ((w>>10)&63)==0
            op=(w>>30)&1; S=(w>>29)&1
            a=rz(rn); b=rz(rm)
            r=(a-b)&M if op else (a+b)&M
            if S: assert op==1; flags=(a,b)
            if rd!=31: X[rd]=r
        elif (w&0xff200000)==0xaa000000:
            # ORR shifted register (MOV): pure move when rn==31, no shift
            assert rn==31 and ((w>>10)&63)==0 and ((w>>22)&3)==0
            v=0 if rm==31 else X[rm]
            if rd!=31: X[rd]=v
        elif (w&0x1f800000)==0x12800000:
            # move wide
            assert w>>31==1
            opc=(w>>29)&3; hw=(w>>21)&3; i=(w>>5)&0xffff
            if opc==2: v=i<<(16*hw)
            elif opc==0: v=(~(i<<(16*hw)))&M
            elif opc==3: v=(rz(rd)&~(0xffff<<(16*hw))&M)|(i<<(16*hw))
            else: raise Fault('bad movewide')
            if rd!=31: X[rd]=v
        elif (w&0xffe00000)==0x9b000000:
            # MADD/MSUB
            o0=(w>>15)&1
            n=rz(rn); m=rz(rm); a=rz(ra)
            v=(a-n*m)&M if o0 else (a+n*m)&M
            if rd!=31: X[rd]=v
        elif (w&0xffe0fc00)==0x9ac00c00:
            n=s64(rz(rn)); m=s64(rz(rm))
            if m==0: raise Fault('div-by-zero')
            if n==-(1<<63) and m==-1: raise Fault('div-overflow')
            q=abs(n)//abs(m)
            if (n<0)!=(m<0): q=-q
            if rd!=31: X[rd]=q&M
        elif (w&0xffc00000)==0xf9400000:
            a=(base(rn)+((w>>10)&0xfff)*8)&M
            v=ld(a)
            if rd!=31: X[rd]=v
        elif (w&0xffc00000)==0xf9000000:
            a=(base(rn)+((w>>10)&0xfff)*8)&M
            st(a,0 if rd==31 else X[rd])
        elif (w&0xffc00000)==0xa9800000:
            # STP pre-index 64-bit
            i=sx((w>>15)&0x7f,7)*8; rt2=(w>>10)&31
            a=(base(rn)+i)&M
            st(a,0 if rd==31 else X[rd]); st(a+8,0 if rt2==31 else X[rt2])
            if rn==31: sp=a
            else: X[rn]=a
        elif (w&0xffc00000)==0xa8c00000:
            # LDP post-index 64-bit
            i=sx((w>>15)&0x7f,7)*8; rt2=(w>>10)&31
            a=base(rn)
            v1=ld(a); v2=ld(a+8)
            if rd!=31: X[rd]=v1
            if rt2!=31: X[rt2]=v2
            if rn==31: sp=(a+i)&M
            else: X[rn]=(a+i)&M
        elif (w&0xfc000000)==0x14000000:
            npc=(pc+sx(w&0x3ffffff,26)*4)&M
        elif (w&0xfc000000)==0x94000000:
            r=relocs.get(off)
            if r and r[1] in('print_i64','println_i64'):
                if sp%16: raise Fault('misaligned-call')
                out.append((1 if r[1]=='println_i64' else 0, s64(rz(0))))
                for k in range(0,19): X[k]=None
                X[30]=None; flags=None
                for k in [k for k in mem if SL<=k<sp]: del mem[k]
            else:
                X[30]=pc+4; npc=(pc+sx(w&0x3ffffff,26)*4)&M
        elif (w&0xff000010)==0x54000000:
            cond=w&15; t=(pc+sx((w>>5)&0x7ffff,19)*4)&M
            if flags is None: raise Fault('read-undefined flags')
            a,b=flags; sa,sb=s64(a),s64(b)
            c={0:a==b,1:a!=b,11:sa<sb,13:sa<=sb,12:sa>sb,10:sa>=sb}[cond]
            if c: npc=t
        elif (w&0xfffffc1f)==0xd61f0000:
            npc=rz(rn)
        elif (w&0xfffffc1f)==0xd65f0000:
            assert rn==30
            if X[30]!=0xC0DE000000000000+30: return f'OK out={fmt(out)} res=cc:X30 steps={steps}'
            if sp!=ST: return f'OK out={fmt(out)} res=cc:SP steps={steps}'
            for k in range(19,30):
                if X[k]!=0xC0DE000000000000+k: return f'OK out={fmt(out)} res=cc:X{k} steps={steps}'
            return f'OK out={fmt(out)} res=done:{s64(rz(0))} steps={steps}'
        elif (w&0x9f000000)==0x10000000:
            i=sx((((w>>5)&0x7ffff)<<2)|((w>>29)&3),21)
            if rd!=31: X[rd]=(pc+i)&M
        else:
            raise Fault(f'undecoded {w:08x}')
        pc=npc
      return f'OK out={fmt(out)} res=outOfFuel steps={steps}'
    except Fault as e:
        return f'OK out={fmt(out)} res=fault:{e} steps={steps}'
def fmt(out): return '['+','.join(f'{a}:{b}' for a,b in out)+']'
if __name__=='__main__':
    print(run(sys.argv[1],[int(a) for a in sys.argv[2:]]))
