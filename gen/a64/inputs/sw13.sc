data List[A] { Nil, Cons(x: A, xs: List[A]) }
def main(): i64 {
  let x1: i64 = 1;
  let x2: i64 = 2;
  let x3: i64 = 3;
  let x4: i64 = 4;
  let x5: i64 = 5;
  let x6: i64 = 6;
  let x7: i64 = 7;
  let x8: i64 = 8;
  let x9: i64 = 9;
  let x10: i64 = 10;
  let x11: i64 = 11;
  let x12: i64 = 12;
  let x13: i64 = 13;
  let l: List[i64] = Cons(100, Nil);
  let r: i64 = l.case[i64] { Nil => 0, Cons(a, as) => (((((((((((((a + x1) + x2) + x3) + x4) + x5) + x6) + x7) + x8) + x9) + x10) + x11) + x12) + x13) };
  println_i64(r);
  0 }
