def main(): i64 {
  let x1: i64 = 4;
  let x2: i64 = 7;
  let x3: i64 = 10;
  let x4: i64 = 13;
  let x5: i64 = 16;
  let x6: i64 = 19;
  let x7: i64 = 22;
  let x8: i64 = 25;
  let x9: i64 = 28;
  let x10: i64 = 31;
  let x11: i64 = 34;
  let x12: i64 = 37;
  let x13: i64 = 40;
  let x14: i64 = 43;
  println_i64(x1);
  let r: i64 = (((((((((((((x1 + x2) + x3) + x4) + x5) + x6) + x7) + x8) + x9) + x10) + x11) + x12) + x13) + x14);
  println_i64(r);
  0 }
