import Scc.A64.Machine
import Scc.A64.Backend
import Scc.AxCut.SemPos
import Scc.X86.Machine
open Scc.A64

/-- all instructions of the model's output round-trip through printer and parser -/
def roundTripReport (dump : String) (hooks : Bool) : String :=
  match readS5 dump with
  | .error e => e
  | .ok p =>
    match compileProg a64Backend p hooks 0 with
    | .error e => "PANIC " ++ e
    | .ok (_, _, routine) =>
      match routine.find? (fun c => !c.roundTrips) with
      | some c => "ROUNDTRIP-FAIL " ++ printCode c
      | none => "ROUNDTRIP OK " ++ toString routine.length

/-- usage: a64run run <file.s> <fuel> <mon> [args...] | a64run wf <file.s>
         | a64run codegen <file.s5> <hooks 0/1> <counterStart> | a64run codegenfixed … | a64run roundtrip <file.s5> -/
def main (argv : List String) : IO Unit := do
  match argv with
  | "run" :: file :: fuel :: mon :: args =>
    let text ← IO.FS.readFile file
    IO.println (runLine text (" ".intercalate args) fuel.toNat! mon)
  | ["pos", file, fuel, args] =>
    let text ← IO.FS.readFile file
    IO.println (Scc.AxCut.Pos.runLinePos text args fuel.toNat!)
  | "x86" :: file :: fuel :: mon :: args =>
    let text ← IO.FS.readFile file
    IO.println (Scc.X86.runLine text (" ".intercalate args) fuel.toNat! mon)
  | ["wf", file] =>
    let text ← IO.FS.readFile file
    IO.println (wfLine text)
  | ["codegen", file, hooks, start] =>
    let text ← IO.FS.readFile file
    IO.println (runLineCodegen text (hooks == "1") start.toNat!)
  | ["codegenold", file, hooks, start] =>
    let text ← IO.FS.readFile file
    IO.println (runLineCodegenG a64BackendOld text (hooks == "1") start.toNat!)
  | ["roundtrip", file] =>
    let text ← IO.FS.readFile file
    IO.println (roundTripReport text true)
  | _ => IO.println "usage"
