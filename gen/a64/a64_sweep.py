#!/usr/bin/env python3
"""a64_sweep.py <outdir>: targeted LINEAR AxCut programs (`axcutlin <file>.lin.sexp`) for the AArch64
code-generation tie and the machine-level checks (C07, C13, C14): context sizes 0..30 (spills start at
position 13), every operator x operand/target placement around the spill boundary (incl. the `rem`
scratch dance), all 12 comparison forms x placements x outcomes (incl. i64 extremes), literals with the
halfword patterns 0000/FFFF/other in every position plus i64/i32 boundaries into registers and spill
slots, objects of 0..8 fields (ext and boxed fields) with 1 or 2 xtors (jump table; scrutinee in a
register or a spill slot), closures with 0..8 captured variables and 0..7 arguments, and prints with
0..30 live variables of mixed kinds with the argument in a register or a spill slot (13 live variables:
the link-register case).  All programs are `main` without parameters except `opargs_*` (2 arguments:
run them with extremes).  1414 distinct programs; python3 stdlib only."""
import sys, os, itertools, random
out=sys.argv[1]; os.makedirs(out,exist_ok=True)
def q(s): return '"'+s+'"'
def ID(n,i): return f'(id {q(n)} {i})'
def B(n,i,chi='ext',ty='i64'): return f'(b {ID(n,i)} {chi} {ty})'
def TY(n): return f'(ty {ID(n,0)})'
def ctx(bs): return '(ctx'+''.join(' '+b for b in bs)+')'
class P:
    def __init__(s): s.n=0; s.types=[]
    def fresh(s): s.n+=1; return s.n
    def render(s,params,body,extra_defs=''):
        ts=''.join(' '+t for t in s.types)
        return f'(axprog {s.n+5} (types{ts}) (defs (def {ID("main",0)} {ctx(params)} {body}){extra_defs}))'
def lits(p,vals,k):
    """k: continuation taking list of ids -> stmt"""
    ids=[p.fresh() for _ in vals]
    body=k(ids)
    for i,v in reversed(list(zip(ids,vals))):
        body=f'(lit {ID("v",i)} {v} {body})'
    return body
def prints(ids,k,nl=True):
    body=k
    for i in reversed(ids): body=f'(print {"nl" if nl else "nonl"} {ID("v",i)} {body})'
    return body
count=0
def emit(name,text):
    global count
    open(os.path.join(out,name+'.lin.sexp'),'w').write(text+'\n'); count+=1
OPS=['+','-','*','/','%']
# ---- A: operators x context size x source placements
def vals_for(n,rng):
    return [rng.choice([1,2,3,5,7,-3,-7,100,-100,9,11,-13,1000003]) for _ in range(n)]
rng=random.Random(1)
for N in [1,2,3,5,11,12,13,14,15,16,20,29,30]:
    for op in OPS:
        cand=sorted(set([0,min(12,N-1),min(13,N-1),N-1,max(0,N-2)]))
        pairs=[(i,j) for i in cand for j in cand]
        rng.shuffle(pairs)
        for (i,j) in pairs[:4]+[(N-1,N-1)]:
            p=P(); vals=vals_for(N,rng)
            if op in '/%':
                vals[j]=rng.choice([1,2,3,-2,7,-1])
            def k(ids):
                r=p.fresh()
                rest=prints([r,ids[i],ids[j],ids[0],ids[-1]],f'(exit {ID("v",r)})')
                return f'(op {ID("v",r)} {ID("v",ids[i])} {op} {ID("v",ids[j])} {rest})'
            emit(f'op_{N}_{OPS.index(op)}_{i}_{j}',p.render([],lits(p,vals,k)))
# args-based op tests with extremes (main takes 2 args)
for N in [0,12,13,20]:
    for op in OPS:
        p=P(); a=p.fresh(); b=p.fresh()
        vals=vals_for(N,rng)
        def k(ids):
            r=p.fresh(); r2=p.fresh()
            rest=prints([r,r2,a,b],f'(exit {ID("v",r)})')
            return f'(op {ID("v",r)} {ID("v",a)} {op} {ID("v",b)} (op {ID("v",r2)} {ID("v",b)} {op} {ID("v",a)} {rest}))'
        emit(f'opargs_{N}_{OPS.index(op)}',p.render([B('v',a),B('v',b)],lits(p,vals,k)))
# ---- B: literals: halfword patterns in every position, extremes; target register and spill
hw=[0x0000,0xFFFF,0x1234,0x8000,0x7FFF,0x0001,0xFFFE]
pats=[]
for combo in itertools.product([0x0000,0xFFFF,0x1234],repeat=4): pats.append(combo)
for combo in itertools.product([0x8000,0x7FFF,0x0001,0xFFFE,0,0xFFFF],repeat=4):
    if rng.random()<0.06: pats.append(combo)
def tosigned(c):
    v=c[0]|(c[1]<<16)|(c[2]<<32)|(c[3]<<48)
    return v-(1<<64) if v>>63 else v
litvals=[tosigned(c) for c in pats]+[0,-1,1,2**63-1,-2**63,2**31,2**31-1,-2**31,-2**31-1,2**32,2**32-1,65535,65536,-65536,-65537,4095,4096]
chunks=[litvals[i:i+14] for i in range(0,len(litvals),14)]
for ci,ch in enumerate(chunks):
    # all in registers (context grows from 0 to 13 (position 12 max is register)): 12 literals + print
    for pad in [0,13]:
        p=P()
        padv=vals_for(pad,rng)
        def k(ids):
            return prints(ids[pad:],f'(exit {ID("v",ids[-1])})')
        emit(f'lit_{ci}_{pad}',p.render([],lits(p,padv+ch,k)))
# ---- C: comparisons
SORTS=['eq','ne','lt','le','gt','ge']
for N,(pi,pj) in [(3,(0,1)),(15,(0,13)),(15,(13,0)),(15,(13,14)),(14,(12,13)),(30,(29,28))]:
    for srt in SORTS:
        for (x,y) in [(1,2),(2,2),(2,1),(-5,3),(3,-5),(-2**63,2**63-1),(2**63-1,-2**63),(-1,-1)]:
            p=P(); vals=vals_for(N,rng); vals[pi]=x; vals[pj]=y
            def k(ids):
                one=p.fresh(); zero=p.fresh()
                t=f'(lit {ID("v",one)} 1 (print nl {ID("v",one)} (print nl {ID("v",ids[pi])} (exit {ID("v",ids[pj])}))))'
                e=f'(lit {ID("v",zero)} 0 (print nl {ID("v",zero)} (print nl {ID("v",ids[pi])} (exit {ID("v",ids[pj])}))))'
                return f'(ifc {srt} {ID("v",ids[pi])} {ID("v",ids[pj])} {t} {e})'
            emit(f'cmp_{N}_{pi}_{pj}_{srt}_{x}_{y}'.replace('-','m'),p.render([],lits(p,vals,k)))
for N,pi in [(3,1),(13,12),(14,13),(30,29)]:
    for srt in SORTS:
        for x in [0,1,-1,-2**63,2**63-1]:
            p=P(); vals=vals_for(N,rng); vals[pi]=x
            def k(ids):
                one=p.fresh(); zero=p.fresh()
                t=f'(lit {ID("v",one)} 1 (print nl {ID("v",one)} (exit {ID("v",ids[pi])})))'
                e=f'(lit {ID("v",zero)} 0 (print nl {ID("v",zero)} (exit {ID("v",ids[pi])})))'
                return f'(ifc {srt} {ID("v",ids[pi])} none {t} {e})'
            emit(f'cmpz_{N}_{pi}_{srt}_{x}'.replace('-','m'),p.render([],lits(p,vals,k)))
# ---- D: objects of 0..8 fields, let/switch with 1 or 2 xtors, base context sizes around the boundary
for F in range(0,9):
    for N in [0,5,9,11,12,13,14,20]:
        for nx in [1,2]:
            for kinds in ['e','m']:
                if N+F+1>60: continue
                p=P()
                fk=[('ext' if (kinds=='e' or f%2==0) else 'prd') for f in range(F)]
                tname=f'T{F}'
                sig=ctx([B(f'f{f}',0,fk[f],'i64' if fk[f]=='ext' else TY('Bx')) for f in range(F)])
                xt=f' (xtor {ID("K",0)} {sig})'
                if nx==2: xt=f' (xtor {ID("J",0)} (ctx))'+xt
                p.types.append(f'(type {ID(tname,0)}{xt})')
                p.types.append(f'(type {ID("Bx",0)} (xtor {ID("Mk",0)} (ctx {B("c",0)})))')
                base=vals_for(N,rng)
                def k(ids):
                    # build field values: ext -> lit, prd -> let Bx.Mk(lit)
                    fids=[p.fresh() for _ in range(F)]
                    o=p.fresh()
                    gids=[p.fresh() for _ in range(F)]
                    # body of the K clause: print ext fields, unbox prd fields (switch on LAST one only), print some base vars
                    body=f'(exit {ID("v",ids[0] if ids else (gids[0] if F and fk[0]=="ext" else o))})' if (ids or (F and fk[0]=="ext")) else None
                    extg=[g for g,kd in zip(gids,fk) if kd=='ext']
                    if body is None:
                        z=p.fresh(); body=f'(lit {ID("v",z)} 0 (exit {ID("v",z)}))'
                    body=prints(extg+ids[:2]+ids[-2:],body)
                    if F and fk[-1]=='prd':
                        c=p.fresh()
                        body=f'(switch {ID("v",gids[-1])} {TY("Bx")} (clauses (clause {ID("Mk",0)} (ctx {B("v",c)}) (print nl {ID("v",c)} {body}))))'
                    cl=f'(clause {ID("K",0)} {ctx([B("v",g,kd,"i64" if kd=="ext" else TY("Bx")) for g,kd in zip(gids,fk)])} {body})'
                    if nx==2:
                        z=p.fresh()
                        cl=f'(clause {ID("J",0)} (ctx) (lit {ID("v",z)} 77 (exit {ID("v",z)}))) '+cl
                    sw=f'(switch {ID("v",o)} {TY(tname)} (clauses {cl}))'
                    st=f'(let {ID("v",o)} {TY(tname)} {ID("K",0)} {ctx([B("v",f,kd,"i64" if kd=="ext" else TY("Bx")) for f,kd in zip(fids,fk)])} {sw})'
                    for f,kd in reversed(list(zip(fids,fk))):
                        if kd=='ext': st=f'(lit {ID("v",f)} {1000+f} {st})'
                        else:
                            t=p.fresh()
                            st=f'(lit {ID("v",t)} {2000+f} (let {ID("v",f)} {TY("Bx")} {ID("Mk",0)} {ctx([B("v",t)])} {st}))'
                    return st
                emit(f'obj_{F}_{N}_{nx}_{kinds}',p.render([],lits(p,base,k)))
# ---- E: closures: create with env of E vars, invoke with A args, 1 or 2 methods
for E in [0,1,3,4,8]:
    for A in [0,2,7]:
        for N in [0,10,13,16]:
            for nm in [1,2]:
                p=P()
                sig=ctx([B(f'a{a}',0) for a in range(A)])
                ms=f' (xtor {ID("ap",0)} {sig})'
                if nm==2: ms=f' (xtor {ID("other",0)} (ctx))'+ms
                p.types.append(f'(type {ID("Fn",0)}{ms})')
                base=vals_for(N,rng); env=vals_for(E,rng); args=vals_for(A,rng)
                # linear order needed at create: context = next ++ env ; at invoke: args ++ [closure]
                # so: lits for env FIRST is impossible w/o subst (args must precede closure): use subst to reorder.
                def k(ids):
                    bids=ids[:N]; eids=ids[N:N+E]
                    c=p.fresh()
                    pa=[p.fresh() for _ in range(A)]
                    pe=[p.fresh() for _ in range(E)]
                    mb=prints(pa+pe, f'(exit {ID("v",(pa+pe)[0])})') if (pa+pe) else None
                    if mb is None:
                        z=p.fresh(); mb=f'(lit {ID("v",z)} 5 (exit {ID("v",z)}))'
                    cl=f'(clause {ID("ap",0)} {ctx([B("v",x) for x in pa])} {mb})'
                    if nm==2:
                        z=p.fresh()
                        cl=f'(clause {ID("other",0)} (ctx) (lit {ID("v",z)} 78 (exit {ID("v",z)}))) '+cl
                    aids=[p.fresh() for _ in range(A)]
                    # after create: context = bids ++ [c]; drop base vars & reorder: subst to [args..., c]
                    pairs=''.join(f' (pair {B("v",x)} {ID("v",x)})' for x in aids)+f' (pair {B("v",c,"cns",TY("Fn"))} {ID("v",c)})'
                    inv=f'(subst (pairs{pairs}) (invoke {ID("v",c)} {ID("ap",0)} {TY("Fn")} {ctx([B("v",x) for x in aids])}))'
                    st=inv
                    for x,v in reversed(list(zip(aids,args))): st=f'(lit {ID("v",x)} {v} {st})'
                    st=prints(bids[-1:],st)
                    envctx=ctx([B("v",x) for x in eids])
                    # rename env in clause: clause context is (args) and closure env keeps names eids -> use pe = eids
                    return f'(create {ID("v",c)} {TY("Fn")} {envctx} (clauses {cl}) {st})'.replace('PLACEHOLDER','')
                # closure env variables keep their ids inside the method: make pe = eids by generating after
                text=None
                def k2(ids):
                    bids=ids[:N]; eids=ids[N:N+E]
                    c=p.fresh(); pa=[p.fresh() for _ in range(A)]
                    allv=pa+eids
                    if allv: mb=prints(allv,f'(exit {ID("v",allv[0])})')
                    else:
                        z=p.fresh(); mb=f'(lit {ID("v",z)} 5 (exit {ID("v",z)}))'
                    cl=f'(clause {ID("ap",0)} {ctx([B("v",x) for x in pa])} {mb})'
                    if nm==2:
                        z=p.fresh(); cl=f'(clause {ID("other",0)} (ctx) (lit {ID("v",z)} 78 (exit {ID("v",z)}))) '+cl
                    aids=[p.fresh() for _ in range(A)]
                    pairs=''.join(f' (pair {B("v",x)} {ID("v",x)})' for x in aids)+f' (pair {B("v",c,"cns",TY("Fn"))} {ID("v",c)})'
                    st=f'(subst (pairs{pairs}) (invoke {ID("v",c)} {ID("ap",0)} {TY("Fn")} {ctx([B("v",x) for x in aids])}))'
                    for x,v in reversed(list(zip(aids,args))): st=f'(lit {ID("v",x)} {v} {st})'
                    st=prints(bids[-1:],st)
                    return f'(create {ID("v",c)} {TY("Fn")} {ctx([B("v",x) for x in eids])} (clauses {cl}) {st})'
                emit(f'clo_{E}_{A}_{N}_{nm}',p.render([],lits(p,base+env,k2)))
# ---- F: prints with every context size and kind mix, argument first / middle / last
for N in range(1,31):
    for kinds in ['e','m','p']:
        for where in ['first','mid','last']:
            p=P()
            p.types.append(f'(type {ID("Unit",0)} (xtor {ID("U",0)} (ctx)))')
            kd=[('ext' if (kinds=='e' or (kinds=='m' and i%2==0)) else 'prd') for i in range(N)]
            exts=[i for i in range(N) if kd[i]=='ext']
            if not exts: kd[N//2]='ext'; exts=[N//2]
            pick={'first':exts[0],'mid':exts[len(exts)//2],'last':exts[-1]}[where]
            ids=[p.fresh() for _ in range(N)]
            body=f'(print nl {ID("v",ids[pick])} '+prints([ids[i] for i in exts],f'(exit {ID("v",ids[pick])})')+')'
            for i in reversed(range(N)):
                if kd[i]=='ext': body=f'(lit {ID("v",ids[i])} {100+i} {body})'
                else: body=f'(let {ID("v",ids[i])} {TY("Unit")} {ID("U",0)} (ctx) {body})'
            emit(f'prt_{N}_{kinds}_{where}',p.render([],body))
print(count)
