#!/usr/bin/env python3
"""a64_check.py [-q] [--args a,b] [--runner <a64run>] <dir-or-files...>
Differential check of the AArch64 component on `.sc` (stages), `.sexp` (axcut, non-linear) and
`.lin.sexp` (axcutlin) inputs.  For each input:
  harness  -> S5, S6a, S7a, S7x
  TEXT     model `runLineCodegen` text == harness S6a/S7a (exact; the label counter start is searched)
  RT       every model instruction round-trips through printer and parser (`Code.roundTrips`)
  RUN      Scc.A64 machine (monitors heap,wf) on S7a  ==  Scc.AxCut.Pos (S5)  ==  Scc.X86 machine (S7x)
  EMU      == a64emu.py (llvm-mc -triple=aarch64 + encoding-level interpreter): out, result, step count
Needs the executable built from A64Main.lean (see README.md): a64run run|wf|codegen|codegenold|roundtrip|pos|x86.
Prints one line per difference and a summary dictionary."""
import subprocess, sys, os, re, glob, collections
HERE=os.path.dirname(os.path.abspath(__file__))
sys.path.insert(0,HERE)
import a64emu
H='/verif/harness/target/debug/scc-harness'
R=os.environ.get('A64RUN','a64run')
def unq(s):
    out=[];i=1
    while i<len(s)-1:
        c=s[i]
        if c=='\\':
            n=s[i+1]; out.append({'n':'\n','r':'\r','t':'\t','\\':'\\','"':'"'}[n]); i+=2
        else: out.append(c); i+=1
    return ''.join(out)
def stages(f, cmd='stages'):
    r=subprocess.run([H],input=f'{cmd} {f}\n',capture_output=True,text=True).stdout
    d={}
    for l in r.split('\n'):
        k=l.split(' ',1)[0]
        if k.startswith('S'): d[k]=l[len(k)+1:]
    return d
def model(s5, start, cmd='codegen'):
    return subprocess.run([R,cmd,s5,'1',str(start)],capture_output=True,text=True).stdout
def compare(base, verbose=True):
    """base: path without extension; needs .s5 .s6a .s7a .nargs"""
    s6=open(base+'.s6a').read(); s7=open(base+'.s7a').read(); n=open(base+'.nargs').read().strip()
    want=f'OK {n}\n{s6}\n---\n{s7}\n'
    labs=[int(x) for x in re.findall(r'^lab(\d+):$',s6,re.M)]
    nums=sorted(set(int(x) for l in re.findall(r'^(\S+):$',s6,re.M) for x in re.findall(r'\d+',l)))
    cands=[]
    if labs:
        m=min(labs)
        cands=[c-1 for c in nums if c<=m and c>=1]
        cands.sort(key=lambda c:-c)
    else:
        cands=[c-1 for c in nums if c>=1]
    cands=cands+[0]
    seen=set()
    got=None
    for c in cands:
        if c in seen: continue
        seen.add(c)
        got=model(base+'.s5',c)
        if got==want: return True,c
    if verbose:
        # show first diff with the best candidate (the first one)
        best=(-1,None,None)
        b=want.split('\n')
        for c in seen:
            a=model(base+'.s5',c).split('\n')
            i=0
            while i<min(len(a),len(b)) and a[i]==b[i]: i+=1
            if i>best[0]: best=(i,c,a)
        i,c,a=best
        print(f'  best start {c}: first diff line {i}: model={a[i] if i<len(a) else None!r} harness={b[i] if i<len(b) else None!r}')
    return False,None
def sh(*a): return subprocess.run(list(a),capture_output=True,text=True).stdout.strip()
def core(line):
    m=re.search(r'out=(\[.*?\]) res=(\S+)',line)
    return (m.group(1),m.group(2)) if m else ('?',line[:80])
def normres(r):
    # make comparable: done:v stays; faults -> class
    if r.startswith('done:') or r=='outOfFuel': return r
    if 'div-by-zero' in r or 'divByZero' in r: return 'divzero'
    if 'div-overflow' in r or 'stuck:overflow' in r: return 'divoverflow'
    return r
def one(f, args, stats, fuel=3000000, quiet=False):
    base=re.sub(r'(\.lin)?\.(sexp|sc)$','',f)
    cmd='stages' if f.endswith('.sc') else ('axcutlin' if f.endswith('.lin.sexp') else 'axcut')
    d=stages(f,cmd)
    if not d.get('S5','').startswith('OK'):
        stats['nos5']+=1; print('NO-S5',f,d.get('S5','')[:100]); return
    open(base+'.s5','w').write(d['S5'][3:]+'\n')
    if not d.get('S6a','').startswith('OK'):
        # codegen panicked: model must panic too
        got=sh(R,'codegen',base+'.s5','1','0')
        if got.startswith('PANIC'):
            stats['panic_agree']+=1
            if not quiet: print('PANIC-AGREE',f,d.get('S6a','')[:80],'|',got[:60])
        else: stats['panic_disagree']+=1; print('PANIC-DISAGREE',f,d.get('S6a','')[:100],got[:60])
        return
    n,txt=d['S6a'][3:].split(' ',1)
    open(base+'.s6a','w').write(unq(txt)); open(base+'.nargs','w').write(n)
    open(base+'.s7a','w').write(unq(d['S7a'][3:]))
    if d.get('S7x','').startswith('OK'): open(base+'.s7x','w').write(unq(d['S7x'][3:]))
    ok,c=compare(base)
    if ok: stats['text_eq']+=1
    else: stats['text_ne']+=1; print('TEXT-DIFF',f)
    rt=sh(R,'roundtrip',base+'.s5')
    if not rt.startswith('ROUNDTRIP OK'): stats['rt_bad']+=1; print('ROUNDTRIP',f,rt)
    nargs=int(n)
    a=(args+[3]*nargs)[:nargs]
    sa=[str(x) for x in a]
    m=sh(R,'run',base+'.s7a',str(fuel),'heap,wf',*sa)
    e=a64emu.run(base+'.s7a',a,fuel)
    p=sh(R,'pos',base+'.s5',str(fuel),','.join(sa) if sa else '-')
    cm,ce,cp=core(m),core(e),core(p)
    stats['ran']+=1
    if m.startswith('WF-ERROR') or m.startswith('PARSE-ERROR'): stats['wf_bad']+=1; print('WF',f,m[:150])
    if e.startswith('ASM-ERROR'): stats['asm_bad']+=1; print('ASM',f,e[:150])
    sm=re.search(r'steps=(\d+)',m); se=re.search(r'steps=(\d+)',e)
    if (cm[0],normres(cm[1]))!=(ce[0],normres(ce[1])) or (sm and se and sm.group(1)!=se.group(1) and 'outOfFuel' not in cm[1]):
        # emulator has no heap monitor / line numbers: compare classes
        if not (cm[1].startswith('fault') and ce[1].startswith('fault') and cm[0]==ce[0]):
            stats['emu_ne']+=1; print('EMU-DIFF',f,m[:150],'|',e[:150])
    if (cm[0],normres(cm[1]))!=(cp[0],normres(cp[1])):
        if 'outOfFuel' in (cm[1],cp[1]) and (cm[0].startswith(cp[0][:-1]) or cp[0].startswith(cm[0][:-1])): stats['fuel']+=1
        else: stats['pos_ne']+=1; print('POS-DIFF',f,a,m[:200],'|',p[:150])
    else: stats['pos_eq']+=1
    if os.path.exists(base+'.s7x') and nargs<=5:
        x=sh(R,'x86',base+'.s7x',str(fuel),'none',*sa)
        cx=core(x)
        if (cx[0],normres(cx[1]))!=(cm[0],normres(cm[1])):
            if 'outOfFuel' in (cm[1],cx[1]): stats['fuel']+=1
            else: stats['x86_ne']+=1; print('X86-DIFF',f,a,m[:120],'|',x[:150])
        else: stats['x86_eq']+=1
    if not quiet: print(f, a, m[:110])
if __name__=='__main__':
    stats=collections.Counter()
    args=[]; files=[]; quiet=False
    it=iter(sys.argv[1:])
    for x in it:
        if x=='--args': args=[int(v) for v in next(it).split(',')]
        elif x=='--runner': R=next(it)
        elif x=='-q': quiet=True
        elif os.path.isdir(x): files+=sorted(glob.glob(x+'/*.sexp')+glob.glob(x+'/*.sc'))
        else: files.append(x)
    for f in files: one(os.path.abspath(f),args,stats,quiet=quiet)
    print(dict(stats))
