import re,subprocess,sys
R='/tmp/agent_a64/lean/.lake/build/bin/a64run'
def sh(*a): return subprocess.run(list(a),capture_output=True,text=True).stdout.strip()
def core(line):
    m=re.search(r'out=(\[.*?\]) res=(\S+)',line); return (m.group(1),m.group(2)) if m else None
cat={}
for log in sys.argv[1:]:
  for l in open(log):
    if not l.startswith('POS-DIFF'): continue
    f=l.split()[1]; base=re.sub(r'(\.lin)?\.(sexp|sc)$','',f)
    args=re.search(r'\[(.*?)\]',l).group(1).replace(' ','')
    sa=args.split(',') if args else []
    txt=open(base+'.s7a').read()
    # defect 2 pattern
    d2=bool(re.search(r'ADR X2, \S+\n\s+LDR X2, \[ SP, \d+ \]\n\s+ADD X2, X2, X2\n\s+BR X2',txt))
    # LR: print with 13 vars
    ctxs=None; d1=False
    for line in txt.split('\n'):
        if '#ctx [' in line: ctxs=line
        if 'BL print' in line and ctxs is not None and ctxs.count(':')==13: d1=True
    # run fixed-LR text
    fx=sh(R,'codegenfixed',base+'.s5','1','0')
    rt=fx.split('\n---\n',1)[1]+'\n'
    open(base+'.fixed.s7a','w').write(rt)
    m=sh(R,'run',base+'.fixed.s7a','3000000','heap,wf',*sa)
    p=sh(R,'pos',base+'.s5','3000000',','.join(sa) if sa else '-')
    fixed_ok = core(m)==core(p)
    key=(('switch-spill' if d2 else '')+(' lr13' if d1 else '')).strip() or 'UNEXPLAINED'
    key+=' | fixedLR-agrees' if fixed_ok else ' | fixedLR-still-differs'
    cat.setdefault(key,[]).append(f)
for k,v in cat.items(): print(len(v),k,v[:2])
