#!/usr/bin/env python3
"""Model-only end-to-end check (instances of C01_statement): for every <prog>.sc with <prog>.args
(first line = argument tuple, as written by gen_fun.py) the composed model compiles the SOURCE TEXT
(Scc.Pipeline.frontEnd + compileAllX86) and the observable of the reference semantics
(`srcRun`: Fun machine on Sequenced programs, Core machine otherwise) must equal the observable of the
x86-64 machine on the emitted text, and the native result (C driver + io.c model) must be the decimal
rendering of the trace with exit status v mod 256.  No harness involved.

usage: check_e2e_model.py <pipemodel exe> <dir|file.sc> ... [--src-fuel N] [--x86-fuel N] [--jobs N]"""
import os
import subprocess
import sys
from concurrent.futures import ThreadPoolExecutor


def opt(argv, name, default):
    if name in argv:
        i = argv.index(name)
        v = int(argv[i + 1])
        del argv[i : i + 2]
        return v
    return default


def one(exe, path, sf, xf):
    argsf = path[:-3] + ".args"
    args = "-"
    if os.path.exists(argsf):
        text = open(argsf).read()
        if text.startswith("test_args"):  # /repo/examples format: test_args = ["1", "2"]
            import re
            first = re.findall(r'"(-?\d+)"', text.split("\n")[0])
        else:
            first = text.split("\n")[0].split()
        args = ",".join(first) if first else "-"
    p = subprocess.run([exe], input=f"e2e {path} {args} {sf} {xf}\n", capture_output=True, text=True, timeout=1200)
    lines = [l for l in p.stdout.split("\n") if l and l != "END"]
    if len(lines) != 4:
        return ("skip", path, " | ".join(lines)[:100])
    src, x86, nat, exp = lines
    s = src[4:].rsplit(" ", 1)[0]
    kind = src.rsplit(" ", 1)[1]
    if "res=done" not in s:
        return ("src-not-done", path, s[-60:])
    if s != x86[4:]:
        return ("DIFF", path, f"src {s[-80:]} x86 {x86[-80:]}")
    if nat[7:] != exp[7:]:
        return ("DIFF", path, f"native {nat[-60:]} expected {exp[-60:]}")
    return ("ok-" + kind, path, "")


def main():
    argv = sys.argv[1:]
    sf = opt(argv, "--src-fuel", 3000000)
    xf = opt(argv, "--x86-fuel", 60000000)
    jobs = opt(argv, "--jobs", 8)
    exe, targets = argv[0], argv[1:]
    files = []
    for t in targets:
        if os.path.isdir(t):
            for root, _, fs in os.walk(t):
                files += [os.path.join(root, f) for f in sorted(fs) if f.endswith(".sc")]
        else:
            files.append(t)
    counts = {}
    with ThreadPoolExecutor(jobs) as ex:
        for kind, path, msg in ex.map(lambda f: one(exe, f, sf, xf), sorted(set(files))):
            counts[kind] = counts.get(kind, 0) + 1
            if not kind.startswith("ok"):
                print(kind, path, msg, flush=True)
    print("SUMMARY", len(files), counts)
    sys.exit(1 if counts.get("DIFF") else 0)


if __name__ == "__main__":
    main()
