#!/usr/bin/env python3
"""Tie of the composed Lean model (Scc/Pipeline.lean, `runLinePipeline`) with the real compiler:
for every source file, a FRESH harness process (label counter 0, hooks on, x86 emitted first) gives the
S1 dump and the S7x routine text; the model, fed with the S1 dump, must return `OK <nargs>` and exactly
that text (byte equality), or `PANIC ..` exactly when the harness reports a PANIC of a later stage.

usage: check_pipeline.py <pipemodel exe> <file.sc | dir> ...   [--jobs N] [--source]
A directory is searched recursively for *.sc.  Exit status 1 if any file differs.
--source: additionally feed the SOURCE TEXT to the model (`runLineSource` = frontEnd + the rest):
a rejected program must give the same diagnostic code; an accepted one the same text (kind `src-order`
= differs only because the checker's type declarations come out of a HashMap in another order)."""
import os
import subprocess
import sys
import tempfile
from concurrent.futures import ThreadPoolExecutor

HARNESS = os.environ.get("HARNESS", "/verif/harness/target/debug/scc-harness")


def unq(s):
    assert s[0] == '"' and s[-1] == '"', s[:40]
    out, i, s = [], 0, s[1:-1]
    while i < len(s):
        c = s[i]
        if c == "\\":
            n = s[i + 1]
            out.append({"n": "\n", "r": "\r", "t": "\t", "\\": "\\", '"': '"'}[n])
            i += 2
        else:
            out.append(c)
            i += 1
    return "".join(out)


def harness_stages(path):
    p = subprocess.run([HARNESS], input=f"stages {path}\n", capture_output=True, text=True, timeout=600)
    lines = {}
    for ln in p.stdout.split("\n"):
        if ln == "END":
            break
        k, _, rest = ln.partition(" ")
        lines[k] = rest
    return lines


class Model:
    def __init__(self, exe):
        self.p = subprocess.Popen([exe], stdin=subprocess.PIPE, stdout=subprocess.PIPE, text=True)

    def ask(self, line):
        self.p.stdin.write(line + "\n")
        self.p.stdin.flush()
        out = []
        while True:
            ln = self.p.stdout.readline()
            if ln == "":
                raise RuntimeError("model died")
            ln = ln.rstrip("\n")
            if ln == "END":
                return "\n".join(out)
            out.append(ln)


SOURCE = False


def check_source(exe, path, st, want):
    m = Model(exe)
    reply = m.ask(f"source {path}")
    m.p.stdin.close()
    m.p.wait()
    for k in ("S0", "S1"):
        if st.get(k, "").startswith("DIAG"):
            code = st[k].split(" ")[1]
            if reply.startswith(f"{k} DIAG {code}"):
                return ("ok-diag", path, "")
            return ("DIFF", path, f"source: harness {k} DIAG {code}, model {reply[:60]!r}")
        if st.get(k, "").startswith("PANIC"):
            return ("ok-panic" if reply.startswith("PANIC") else "DIFF", path, f"source: harness {k} PANIC, model {reply[:60]!r}")
    if want is None:
        return ("skip", path, "")
    if reply == want:
        return ("ok-src", path, "")
    if sorted(reply.split("\n")) == sorted(want.split("\n")) or len(reply) == len(want):
        return ("src-order", path, "")
    return ("DIFF", path, "source route differs: " + reply[:80])


def check_one(exe, path):
    st = harness_stages(path)
    if "S1" not in st or not st["S1"].startswith("OK "):
        if SOURCE:
            return check_source(exe, path, st, None)
        return ("skip", path, (st.get("S0", "") + " " + st.get("S1", ""))[:60])
    with tempfile.NamedTemporaryFile("w", suffix=".s1", delete=False) as f:
        f.write(st["S1"][3:])
        tmp = f.name
    try:
        m = Model(exe)
        reply = m.ask(f"pipeline {tmp}")
        m.p.stdin.close()
        m.p.wait()
    finally:
        os.unlink(tmp)
    panic = [k for k in ("S2", "S2u", "S3", "S4", "S5", "S6x") if st.get(k, "").startswith("PANIC")]
    if panic:
        if reply.startswith("PANIC"):
            return ("ok-panic", path, panic[0] + " / " + reply[:80])
        return ("DIFF", path, f"harness {panic[0]} PANIC, model {reply[:60]!r}")
    if "S7x" not in st or not st["S7x"].startswith("OK "):
        return ("DIFF", path, "no S7x: " + str({k: v[:40] for k, v in st.items() if k.startswith('S6') or k.startswith('S7')}))
    want_n = st["S6x"].split(" ")[1]
    want = f"OK {want_n}\n" + unq(st["S7x"][3:])
    if reply == want:
        if SOURCE:
            r = check_source(exe, path, st, want)
            if r[0] != "ok-src":
                return r
        return ("ok", path, "")
    a, b = reply.split("\n"), want.split("\n")
    for i, (x, y) in enumerate(zip(a, b)):
        if x != y:
            return ("DIFF", path, f"line {i}: model {x!r} harness {y!r}")
    return ("DIFF", path, f"length model {len(a)} harness {len(b)}")


def main():
    argv = sys.argv[1:]
    jobs = 8
    if "--jobs" in argv:
        i = argv.index("--jobs")
        jobs = int(argv[i + 1])
        del argv[i : i + 2]
    global SOURCE
    if "--source" in argv:
        argv.remove("--source")
        SOURCE = True
    exe, targets = argv[0], argv[1:]
    files = []
    for t in targets:
        if os.path.isdir(t):
            for root, _, fs in os.walk(t):
                files += [os.path.join(root, f) for f in sorted(fs) if f.endswith(".sc")]
        else:
            files.append(t)
    files = sorted(set(files))
    counts = {}
    with ThreadPoolExecutor(jobs) as ex:
        for kind, path, msg in ex.map(lambda f: check_one(exe, f), files):
            counts[kind] = counts.get(kind, 0) + 1
            if kind not in ("ok", "ok-diag"):
                print(kind, path, msg, flush=True)
    print("SUMMARY", len(files), counts)
    sys.exit(1 if counts.get("DIFF") else 0)


if __name__ == "__main__":
    main()
